// vcheck runs one property check (or replays a recorded counterexample)
// against the pokerface packages it was just built with.
package main

import (
	"encoding/json"
	"flag"
	"fmt"
	"os"
	"runtime/debug"
	"runtime/pprof"
	"strconv"
	"strings"
	"time"

	"verif/internal/cards"
	"verif/internal/explore"
	"verif/internal/hand"
	"verif/internal/pots"
	"verif/internal/seats"
	"verif/internal/tourney"
)

type checkFn func(rep *explore.Report, tier string)

var checks = map[string]checkFn{
	"C03": func(rep *explore.Report, tier string) { cards.RunC03(rep) },
	"C01": hand.RunC01,
	"C04": hand.RunC04,
	"C05": hand.RunC05,
	"C06": hand.RunC06,
	"C11": hand.RunC11,
	"C12": hand.RunC12,
	"C13": hand.RunC13,
	"C14": hand.RunC14,
	"C15": hand.RunC15,
	"C07": hand.RunC07,
	"C10": hand.RunC10,
	"C09": tourney.RunC09,
	"C19": tourney.RunC19,
	"C20": tourney.RunC20,
	"C08": seats.RunC08,
	"C17": seats.RunC17,
	"C18": seats.RunC18,
	"C16": func(rep *explore.Report, tier string) {
		pots.RunC16(rep, tier)
		if rep.ViolationCount() == 0 { // a broken pot builder makes the in-play pass pointless (and, if it shares state, unsafe to run in parallel)
			hand.RunC16InPlay(rep, tier)
		}
	},
	"C02": func(rep *explore.Report, tier string) {
		pots.RunC02(rep, tier)
		if rep.ViolationCount() == 0 {
			hand.RunC02InPlay(rep, tier)
		}
	},
}

var replayers = map[string]func(v *explore.Violation) (bool, string){
	"cards-c03":    cards.ReplayC03,
	"hand":         hand.ReplayViolation,
	"hand-shuffle": hand.ReplayShuffle,
	"pots":         pots.Replay,
	"hand-c10":     hand.ReplayC10,
	"hand-c07":     hand.ReplayC07,
	"seats":        seats.Replay,
	"tourney":      tourney.ReplayViolation,
	"seats-conc":   seats.ReplayConcurrent,
}

func main() {
	debug.SetGCPercent(400)
	flag.Parse()
	args := flag.Args()
	if len(args) < 1 {
		fmt.Fprintln(os.Stderr, "usage: vcheck <ID> [quick|thorough] | vcheck replay <file>")
		os.Exit(2)
	}
	if args[0] == "conc-child" {
		// vcheck conc-child <harness> <preemption bound>: one C18 harness in its own process
		b, _ := strconv.Atoi(args[2])
		seats.RunHarnessChild(args[1], b)
		os.Exit(0)
	}
	if args[0] == "scenes" {
		// vcheck scenes: how the other hands of the scene grid go on this tree
		hand.SceneSelfTest(os.Stdout)
		fmt.Println("scene configurations: quick", len(hand.SceneGrid("quick")), "thorough", len(hand.SceneGrid("thorough")))
		os.Exit(0)
	}
	if args[0] == "probe" {
		// vcheck probe '<config json>' : explore one configuration with the C01 oracle and print sizes
		var c hand.Config
		if err := json.Unmarshal([]byte(args[1]), &c); err != nil {
			fmt.Fprintln(os.Stderr, err)
			os.Exit(2)
		}
		rep := explore.NewReport("C01", "probe")
		rep.Root = os.TempDir()
		r := &hand.Run{Cfg: &c, Rep: rep, Vis: hand.Visitors["C01"](), Property: "C01", Mode: "clone", Workers: 16, MaxState: 5000000}
		if len(args) > 2 {
			r.Mode = args[2]
		}
		if pf := os.Getenv("VERIF_CPUPROFILE"); pf != "" {
			f, _ := os.Create(pf)
			pprof.StartCPUProfile(f)
			defer pprof.StopCPUProfile()
		}
		t0 := time.Now()
		r.Explore()
		pprof.StopCPUProfile()
		fmt.Printf("%s: states=%d transitions=%d depth=%d viol=%d %.1fs\n", c.Short(), rep.Get("states"), rep.Get("transitions"), rep.Get("max_depth"), rep.ViolationCount(), time.Since(t0).Seconds())
		os.Exit(0)
	}
	if args[0] == "replay" {
		if len(args) < 2 {
			fmt.Fprintln(os.Stderr, "usage: vcheck replay <file>")
			os.Exit(2)
		}
		b, err := os.ReadFile(args[1])
		if err != nil {
			fmt.Fprintln(os.Stderr, err)
			os.Exit(2)
		}
		var v explore.Violation
		if err := json.Unmarshal(b, &v); err != nil {
			fmt.Fprintln(os.Stderr, err)
			os.Exit(2)
		}
		rp, ok := replayers[v.Engine]
		if !ok {
			fmt.Fprintln(os.Stderr, "unknown engine", v.Engine)
			os.Exit(2)
		}
		bad, msg := rp(&v)
		if bad {
			fmt.Printf("VIOLATION property=%s replay=%s\n  reproduced: %s\n", v.Property, args[1], msg)
			os.Exit(1)
		}
		fmt.Printf("not reproduced on this tree: %s\n", msg)
		os.Exit(0)
	}
	id := args[0]
	tier := "quick"
	if len(args) > 1 {
		tier = args[1]
	}
	if t := os.Getenv("VERIF_TIER"); t != "" && len(args) < 2 {
		tier = t
	}
	if strings.Contains(id, ",") {
		// several checks in one process (developer use: mutation runs); exit 1 if any reports a violation
		worst := 0
		for _, one := range strings.Split(id, ",") {
			fn, ok := checks[one]
			if !ok {
				fmt.Fprintln(os.Stderr, "unknown check", one)
				os.Exit(2)
			}
			rep := explore.NewReport(one, tier)
			fn(rep, tier)
			code := rep.Finish()
			fmt.Printf("%s %s: states=%d transitions=%d violations=%d exit=%d\n", one, tier, rep.Get("states"), rep.Get("transitions"), rep.ViolationCount(), code)
			if code > worst {
				worst = code
			}
			if code == 1 && os.Getenv("VERIF_STOP_AT_FIRST") != "" {
				break
			}
		}
		os.Exit(worst)
	}
	fn, ok := checks[id]
	if !ok {
		fmt.Fprintln(os.Stderr, "unknown check", id)
		os.Exit(2)
	}
	rep := explore.NewReport(id, tier)
	if pf := os.Getenv("VERIF_CPUPROFILE"); pf != "" {
		f, _ := os.Create(pf)
		pprof.StartCPUProfile(f)
	}
	fn(rep, tier)
	pprof.StopCPUProfile()
	code := rep.Finish()
	fmt.Printf("%s %s: states=%d transitions=%d violations=%d exit=%d\n", id, tier, rep.Get("states"), rep.Get("transitions"), rep.ViolationCount(), code)
	os.Exit(code)
}
