// racepass is the separate, free-running data-race pass for C18: the same
// thread bodies as the schedule exploration, but on the UN-instrumented seat
// manager with the real sync package, under the Go race detector. A reported
// race is a violation (the detector has no false positives); silence proves
// nothing and is not claimed.
package main

import (
	"fmt"
	"os"
	"strconv"
	"sync"

	sm "github.com/weedbox/pokerface/seat_manager"
)

func main() {
	rounds := 200
	if len(os.Args) > 1 {
		if v, err := strconv.Atoi(os.Args[1]); err == nil {
			rounds = v
		}
	}
	bad := 0
	for r := 0; r < rounds; r++ {
		n := 3 + r%3
		m := sm.NewSeatManager(n)
		if r%2 == 1 {
			m.Join(0, "init")
			m.Seat(0)
		}
		var wg sync.WaitGroup
		ok := make([]int, 8)
		for t := 0; t < 4; t++ {
			wg.Add(1)
			go func(t int) {
				defer wg.Done()
				var id int
				var err error
				switch t % 4 {
				case 0:
					id, err = m.Join(1, fmt.Sprintf("t%d", t))
				case 1:
					id, err = m.Join(-1, fmt.Sprintf("t%d", t))
				case 2:
					id, err = m.Join(1, fmt.Sprintf("t%d", t))
				default:
					if r%2 == 1 {
						err = m.Leave(0)
						id = -2
					} else {
						id, err = m.Join(-1, fmt.Sprintf("t%d", t))
					}
				}
				if err == nil && id >= 0 {
					ok[t] = id + 1
				}
				m.GetPlayerCount()
				m.GetSeats()
			}(t)
		}
		wg.Wait()
		seen := map[int]bool{}
		for _, s := range ok {
			if s > 0 {
				if seen[s] {
					bad++
				}
				seen[s] = true
			}
		}
	}
	if bad > 0 {
		fmt.Printf("RACEPASS two successful joins on one seat in %d rounds\n", bad)
		os.Exit(3)
	}
	fmt.Printf("RACEPASS clean rounds=%d\n", rounds)
}
