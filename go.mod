module verif

go 1.23

require github.com/weedbox/pokerface v0.0.0

replace github.com/weedbox/pokerface => /repo
