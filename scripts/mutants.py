#!/usr/bin/env python3
"""Own mutation matrix: each mutant is a one-place source edit of /repo (made in a
scratch worktree, never in /repo), run against the stable suite and against the
checks that own the property. Writes mutants/own/<name>.diff and mutants/report.md.

usage: scripts/mutants.py [name-substring ...]
"""
import json, os, subprocess, sys, tempfile, shutil

ROOT = os.path.dirname(os.path.dirname(os.path.abspath(__file__)))
ENV = dict(os.environ, GOFLAGS="-mod=mod", GOPROXY="off", GOSUMDB="off", GOTOOLCHAIN="local")

# (name, file, old, new, [checks]) ; old must occur exactly once unless count given
M = [
 # C01
 ("c01-allin-uses-stack", "player.go", "gs.Status.CurrentRoundPot += p.state.InitialStackSize - p.state.Wager", "gs.Status.CurrentRoundPot += p.state.StackSize + p.state.Wager - p.state.Wager + 0*p.state.InitialStackSize", ["C01"]),
 ("c01-roundpot-not-reset", "game.go", "\tg.gs.Status.CurrentRoundPot = 0\n", "", ["C01"]),
 ("c01-folded-wager-not-swept", "game.go", "\t\tps.Pot += ps.Wager\n", "\t\tif !ps.Fold {\n\t\t\tps.Pot += ps.Wager\n\t\t}\n", ["C01"]),
 # C02
 ("c02-folded-keep-score", "settlement.go", "\t\t\tr.UpdateScore(p.Idx, 0)\n\t\t\tcontinue\n", "\t\t\tr.UpdateScore(p.Idx, p.Combination.Power/2)\n\t\t\tcontinue\n", ["C02"]),
 ("c02-winners-all-on-tie-of-losers", "settlement/rank.go", "\t\treturn r.groups[i].Score > r.groups[j].Score", "\t\treturn r.groups[i].Score >= r.groups[j].Score", ["C02"]),
 # C03
 ("c03-kicker-base-12", "combination/power.go", "based := math.Pow(13, float64(level))", "based := math.Pow(12, float64(level))", ["C03"]),
 ("c03-wheel-as-ace-high", "combination/power.go", "\t\tif maxRank == 14 && totalPoint == 28 {\n\t\t\tscore = 0\n", "\t\tif maxRank == 14 && totalPoint == 28 {\n\t\t\tscore = 9\n", ["C03"]),
 ("c03-fullhouse-level", "combination/combination.go", "\tCombinationFullHouse:     169,", "\tCombinationFullHouse:     168,", ["C03"]),
 # C04
 ("c04-first-actor-is-bb", "game.go", "\t\t\t\tg.SetCurrentPlayer(g.NextPlayer())\n\t\t\t\tbreak", "\t\t\t\tg.SetCurrentPlayer(p)\n\t\t\t\tbreak", ["C04"]),
 ("c04-next-loses-phase-check", "game.go", "\tif g.gs.Status.CurrentEvent != \"RoundClosed\" {\n\t\treturn ErrNotClosedRound\n\t}", "\tif g.gs.Status.CurrentEvent == \"GameClosed\" {\n\t\treturn ErrNotClosedRound\n\t}", ["C04", "C06"]),
 ("c04-check-loses-guard", "player.go", "\tif !p.CheckAction(\"check\") {\n\t\treturn ErrInvalidAction\n\t}", "\tif !p.CheckAction(\"check\") && !p.CheckAction(\"fold\") {\n\t\treturn ErrInvalidAction\n\t}", ["C04", "C11"]),
 # C05
 ("c05-raiser-keeps-others-acted", "game.go", "\t// Reset all player states except raiser\n\tg.ResetActedPlayers()\n", "\t// Reset all player states except raiser\n", ["C05"]),
 ("c05-short-allin-no-reset", "player.go", "\t\t\t} else {\n\t\t\t\tp.game.ResetActedPlayers()\n\t\t\t}", "\t\t\t}", ["C05"]),
 ("c05-prepare-round-lt1", "game.go", "\tif g.GetMovablePlayerCount() <= 1 {\n\t\treturn g.EmitEvent(GameEvent_RoundClosed)\n\t}\n\n\treturn g.RequestReady()", "\tif g.GetMovablePlayerCount() < 1 {\n\t\treturn g.EmitEvent(GameEvent_RoundClosed)\n\t}\n\n\treturn g.RequestReady()", ["C05"]),
 ("c05-nextround-drops-alive-test", "game.go", "\tif g.GetAlivePlayerCount() == 1 {\n\t\t// Game is completed\n\t\treturn g.EmitEvent(GameEvent_GameCompleted)\n\t}\n", "", ["C05"]),
 # C06
 ("c06-pass-forgets-acted", "player.go", "\tp.state.Acted = true\n\n\tp.game.UpdateLastAction(p.idx, \"pass\", 0)", "\tp.game.UpdateLastAction(p.idx, \"pass\", 0)", ["C06", "C05"]),
 ("c06-start-accepts-zero-bankroll", "game.go", "\t\tif p.Bankroll <= 0 {", "\t\tif p.Bankroll < 0 {", ["C06"]),
 # C07
 ("c07-prevraise-not-serialised", "game_state.go", "`json:\"previous_raise_size\"`", "`json:\"-\"`", ["C07"]),
 ("c07-backend-no-clone-fold", "table/native_backend.go", "func (nb *NativeBackend) Fold(gs *pokerface.GameState) (*pokerface.GameState, error) {\n\n\tg := nb.engine.NewGameFromState(cloneState(gs))", "func (nb *NativeBackend) Fold(gs *pokerface.GameState) (*pokerface.GameState, error) {\n\n\tg := nb.engine.NewGameFromState(gs)", ["C07"]),
 ("c07-settlement-skips-pot-rebuild", "event.go", "func (g *game) onSettlementRequested() error {\n\n\t// Update pots\n\terr := g.updatePots()\n\tif err != nil {\n\t\treturn err\n\t}\n", "func (g *game) onSettlementRequested() error {\n\n\tvar err error\n", ["C07"]),
 # C08 / C17 / C18
 ("c08-headsup-uses-nonempty-count", "seat_manager/seat_manager.go", "\tif sm.getPlayableSeatCount() == 2 {\n\t\t// dealer is SB as well", "\tif sm.getNonEmptySeatCount() == 2 {\n\t\t// dealer is SB as well", ["C08"]),
 ("c17-search-from-dealer-itself", "seat_manager/seat_manager.go", "\t\tseats = sm.getNormalizeSeats(sm.dealer.ID)\n\t\tseats = seats[1:]\n\t}\n\n\t// Find the next dealer", "\t\tseats = sm.getNormalizeSeats(sm.dealer.ID)\n\t}\n\n\t// Find the next dealer", ["C17"]),
 ("c17-nonempty-lt1", "seat_manager/seat_manager.go", "\t\tif sm.getNonEmptySeatCount() <= 1 {", "\t\tif sm.getNonEmptySeatCount() < 1 {", ["C17", "C18"]),
 ("c18-join-no-reserve", "seat_manager/seat_manager.go", "\ts.IsReserved = true\n\ts.Player = p\n", "\ts.Player = p\n", ["C18"]),
 ("c18-leave-clears-neighbour", "seat_manager/seat_manager.go", "\ts.Player = nil\n\ts.IsReserved = false\n", "\ts.Player = nil\n\ts.IsReserved = false\n\tif n := sm.getSeat(seatID + 1); n != nil && n.Player != nil && n.IsReserved {\n\t\tn.Player = nil\n\t}\n", ["C18"]),
 ("c18-join-range-off-by-one", "seat_manager/seat_manager.go", "\tif seatID >= sm.max || seatID < -1 {", "\tif seatID > sm.max || seatID < -1 {", ["C18"]),
 ("c18-join-unlocked-availability", "seat_manager/seat_manager.go", "func (sm *SeatManager) Join(seatID int, p PlayerInfo) (int, error) {\n\n\tsm.mu.Lock()\n\tdefer sm.mu.Unlock()\n\n\tif seatID >= sm.max || seatID < -1 {\n\t\treturn -1, ErrInvalidSeat\n\t}\n\n\t// Specific seat\n\tif seatID > -1 {\n\t\treturn sm.join(seatID, p)\n\t}\n\n\t// Getting available seats\n\ts, as := sm.getAvailableSeats()", "func (sm *SeatManager) Join(seatID int, p PlayerInfo) (int, error) {\n\n\tif seatID >= sm.max || seatID < -1 {\n\t\treturn -1, ErrInvalidSeat\n\t}\n\n\t// Getting available seats\n\tsm.mu.RLock()\n\ts, as := sm.getAvailableSeats()\n\tsm.mu.RUnlock()\n\n\tsm.mu.Lock()\n\tdefer sm.mu.Unlock()\n\n\t// Specific seat\n\tif seatID > -1 {\n\t\treturn sm.join(seatID, p)\n\t}\n", ["C18"]),
 # C09 / C19 / C20
 ("c09-break-forgets-tablecount", "regulator/regulator.go", "\tdelete(r.tables, tableID)\n\n\tr.tableCount--\n", "\tdelete(r.tables, tableID)\n", ["C09"]),
 ("c09-dispatch-assigns-candidates", "regulator/regulator.go", "\terr = r.assignPlayersFn(t.ID, picked)", "\terr = r.assignPlayersFn(t.ID, candidates)", ["C09"]),
 ("c09-drain-keeps-queue", "regulator/regulator.go", "\t\tr.waitingQueue = candidates\n", "\t\tif len(candidates) > 0 {\n\t\t\tr.waitingQueue = candidates\n\t\t}\n", ["C09"]),
 ("c19-sync-requests-ceil", "regulator/regulator.go", "\t\tcount := int(math.Floor(waterLevel)) - t.PlayerCount\n\n\t\t// Request players", "\t\tcount := int(math.Ceil(waterLevel)) + 1 - t.PlayerCount\n\n\t\t// Request players", ["C19", "C20"]),
 ("c20-release-condition-gt", "regulator/regulator.go", "\t\t\tif lwl >= math.Floor(waterLevel) {", "\t\t\tif lwl > math.Floor(waterLevel)+1 {", ["C20", "C09"]),
 ("c20-break-returns-one-less", "regulator/regulator.go", "\t\t\treturn t.PlayerCount, []string{}, nil\n\t\t}\n\n\t\t// We need more players", "\t\t\treturn t.PlayerCount - 1, []string{}, nil\n\t\t}\n\n\t\t// We need more players", ["C20", "C09"]),
 # C10
 ("c10-sort-ascending", "power.go", "\t\treturn powers[i].Score > powers[j].Score", "\t\treturn powers[i].Score < powers[j].Score", ["C10"]),
 ("c10-gosper-limit", "combination/combination.go", "\tlimit := 1 << n\n", "\tlimit := 1 << (n - 1)\n", ["C10"]),
 # C11 / C12
 ("c11-call-ge", "game.go", "\t\tif ps.InitialStackSize > g.gs.Status.CurrentWager {\n\n\t\t\tactions = append(actions, \"call\")", "\t\tif ps.InitialStackSize >= g.gs.Status.CurrentWager {\n\n\t\t\tactions = append(actions, \"call\")", ["C11"]),
 ("c11-bet-gt-minibet", "game.go", "\t\tif ps.InitialStackSize >= g.gs.Status.MiniBet {", "\t\tif ps.InitialStackSize > g.gs.Status.MiniBet {", ["C11"]),
 ("c11-call-ignores-bb-completion", "player.go", "\tif gs.Status.CurrentWager < gs.Meta.Blind.BB {\n\t\tdelta = gs.Meta.Blind.BB - p.state.Wager\n\t}\n", "", ["C11", "C13"]),
 ("c12-raise-min-check-dropped", "player.go", "\tif chipLevel >= p.state.InitialStackSize || raised < gs.Status.PreviousRaiseSize {", "\tif chipLevel >= p.state.InitialStackSize {", ["C12"]),
 ("c12-raise-below-wager-accepted", "player.go", "\tif chipLevel == 0 || chipLevel < gs.Status.CurrentWager {\n\t\treturn ErrIllegalRaise\n\t}", "\tif chipLevel == 0 {\n\t\treturn ErrIllegalRaise\n\t}", ["C12"]),
 ("c12-raise-size-not-recorded", "player.go", "\t// Update raise size\n\tgs.Status.PreviousRaiseSize = raised\n", "", ["C12"]),
 # C13
 ("c13-blind-cap-uses-bankroll", "player.go", "\tif p.State().StackSize < chips {\n\t\tchips = p.State().StackSize\n\t}", "\tif p.State().Bankroll < chips {\n\t\tchips = p.State().Bankroll\n\t}", ["C13", "C01"]),
 ("c13-minraise-from-sb", "action.go", "\t\tg.gs.Status.PreviousRaiseSize = g.gs.Meta.Blind.BB\n", "\t\tg.gs.Status.PreviousRaiseSize = g.gs.Meta.Blind.SB\n", ["C13"]),
 # C14
 ("c14-flop-burn-removed", "game.go", "\tcase \"flop\":\n\n\t\tg.Burn(1)\n", "\tcase \"flop\":\n", ["C14"]),
 ("c14-shuffle-assigns", "deck.go", "\t\tcards[i], cards[j] = cards[j], cards[i]", "\t\tcards[i] = cards[j]", ["C14"]),
 # C15
 ("c15-observer-forgets-burned", "game_state.go", "func (gs *GameState) AsObserver() {\n\n\tgs.Meta.Deck = []string{}\n\tgs.Status.Burned = []string{}\n", "func (gs *GameState) AsObserver() {\n\n\tgs.Meta.Deck = []string{}\n", ["C15"]),
 ("c15-asplayer-keeps-combination", "game_state.go", "\t\t// Hide private information\n\t\tp.HoleCards = []string{}\n\t\tp.Combination = nil\n\t}\n}\n\nfunc (gs *GameState) AsObserver() {", "\t\t// Hide private information\n\t\tp.HoleCards = []string{}\n\t}\n}\n\nfunc (gs *GameState) AsObserver() {", ["C15"]),
 # C16
 ("c16-merge-forgets-level", "pot/level_list.go", "\t\tprev.Level = p.Level\n", "", ["C16"]),
 ("c16-total-after-fold-removal", "pot/level_list.go", "\t\t\tTotal:        l.Total,\n", "\t\t\tTotal:        l.Total - l.Wager*int64(len(ll.foldedPlayers))*0 - func() int64 { var n int64; for _, c := range l.Contributors { if ll.foldedPlayers[c] && l.Level == 1 { n += 0 } }; return n }(),\n", []),
]

def sh(cmd, cwd=None, timeout=3600):
    return subprocess.run(cmd, shell=True, cwd=cwd, env=ENV, capture_output=True, text=True, timeout=timeout)

def main():
    sel = sys.argv[1:]
    os.makedirs(f"{ROOT}/mutants/own", exist_ok=True)
    rows = []
    for name, file, old, new, checks in M:
        if not checks:
            continue
        if sel and not any(s in name for s in sel):
            continue
        wt = tempfile.mkdtemp(prefix="mut.", dir="/tmp"); os.rmdir(wt)
        out = tempfile.mkdtemp(prefix="mutout.", dir="/tmp")
        try:
            if sh(f"git -C /repo worktree add -q --detach {wt} HEAD").returncode: raise SystemExit("worktree failed")
            p = os.path.join(wt, file); src = open(p).read()
            if src.count(old) != 1:
                rows.append((name, "EDIT-DOES-NOT-APPLY (%d matches)" % src.count(old), "", "")); print(rows[-1]); continue
            open(p, "w").write(src.replace(old, new))
            diff = sh("git diff", cwd=wt).stdout
            open(f"{ROOT}/mutants/own/{name}.diff", "w").write(diff)
            b = sh("go build ./... && go test -vet=off -count=1 ./combination ./pot ./regulator ./settlement ./testcases", cwd=wt)
            suite = "passes" if b.returncode == 0 else "FAILS"
            shutil.copy(f"{ROOT}/known_findings.json", out)
            res = []
            for c in checks:
                r = sh(f"VERIF_REPO={wt} VERIF_OUT={out} {ROOT}/scripts/run.sh {c} quick")
                caught = r.returncode == 1 and f"VIOLATION property={c}" in r.stdout
                sigs = [l.strip().replace("signature: ", "") for l in r.stdout.splitlines() if l.strip().startswith("signature:")][:3]
                res.append(f"{c}: {'CAUGHT ' + ';'.join(sigs) if caught else 'missed (exit %d)' % r.returncode}")
            rows.append((name, suite, file, " | ".join(res))); print(rows[-1], flush=True)
        finally:
            sh(f"git -C /repo worktree remove --force {wt}"); shutil.rmtree(out, ignore_errors=True); shutil.rmtree(wt, ignore_errors=True)
    rep = f"{ROOT}/mutants/report.md"
    old_rows = {}
    if os.path.exists(rep):
        for l in open(rep):
            if l.startswith("| ") and not l.startswith("| mutant") and not l.startswith("| ---"):
                f = [x.strip() for x in l.strip().strip("|").split("|", 3)]
                if len(f) == 4: old_rows[f[0]] = f
    for r in rows: old_rows[r[0]] = list(r)
    with open(rep, "w") as f:
        f.write("# Own mutants (one-place edits, quick tier)\n\nEach row: the edit is made in a scratch worktree, the repository's stable suite is run, then the owning checks. Mutants the suite itself fails are not valid seeded changes and only listed for completeness.\n\n| mutant | stable suite | file | checks |\n| --- | --- | --- | --- |\n")
        for k in sorted(old_rows): f.write("| " + " | ".join(old_rows[k]) + " |\n")

if __name__ == "__main__":
    main()
