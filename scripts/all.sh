#!/bin/bash
# usage: scripts/all.sh quick|thorough [ids...]  - runs the checks one after the other, one summary line each
TIER=${1:-quick}; shift
IDS=${@:-C01 C02 C03 C04 C05 C06 C07 C08 C09 C10 C11 C12 C13 C14 C15 C16 C17 C18 C19 C20}
cd "$(dirname "$0")/.."
for id in $IDS; do
  s=$(date +%s)
  out=$(scripts/run.sh $id $TIER 2>&1); code=$?
  e=$(date +%s)
  echo "$id $TIER exit=$code $((e-s))s :: $(echo "$out" | grep -E 'VIOLATION|KNOWN-FINDING|HARNESS|panic:' | head -3 | tr '\n' ' ') $(echo "$out" | tail -1)"
done
