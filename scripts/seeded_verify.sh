#!/bin/bash
# usage: scripts/seeded_verify.sh <src dir with patch.diff demo_test.go notes.md> <name> <property> <check id>...
# Confirms a seeded change in a scratch worktree of /repo (suite passes with it,
# demo passes without and fails with it), runs the given checks against it and
# stores everything under /verif/seeded/<name>/. Never touches /repo's tree.
set -u
export GOFLAGS=-mod=mod GOPROXY=off GOSUMDB=off GOTOOLCHAIN=local
ROOT=$(cd "$(dirname "$0")/.." && pwd)
SRC=$(readlink -f "$1"); NAME=$2; PROP=$3; shift 3
TIER=${TIER:-quick}
WT=$(mktemp -d /tmp/seedwt.XXXXXX); OUT=$(mktemp -d /tmp/seedout.XXXXXX)
cleanup() { git -C /repo worktree remove --force "$WT" >/dev/null 2>&1; rm -rf "$WT" "$OUT"; }
trap cleanup EXIT
rmdir "$WT"; git -C /repo worktree add -q --detach "$WT" HEAD || exit 2
mkdir -p "$WT/seeded_demo"; cp "$SRC/demo_test.go" "$WT/seeded_demo/demo_test.go"
cp "$ROOT/known_findings.json" "$OUT/"
demo() { (cd "$WT" && timeout 300 go test -vet=off -count=1 ./seeded_demo >"$OUT/demo_$1.log" 2>&1); echo $?; }
D0=$(demo without)
if ! git -C "$WT" apply "$SRC/patch.diff"; then echo "PATCH-DOES-NOT-APPLY"; exit 2; fi
(cd "$WT" && go build ./... >"$OUT/build.log" 2>&1); B=$?
(cd "$WT" && go test -vet=off -count=1 ./combination ./pot ./regulator ./settlement ./testcases >"$OUT/suite.log" 2>&1); S=$?
D1=$(demo with)
echo "build=$B suite=$S demo_without=$D0 demo_with=$D1"
VALID=false
if [ $B -eq 0 ] && [ $S -eq 0 ] && [ "$D0" = "0" ] && [ "$D1" != "0" ]; then VALID=true; fi
RES=""
for id in "$@"; do
  VERIF_REPO="$WT" VERIF_OUT="$OUT" "$ROOT/scripts/run.sh" "$id" "$TIER" >"$OUT/$id.log" 2>&1; code=$?
  sigs=$(grep -A1 '^VIOLATION' "$OUT/$id.log" | grep signature | sed 's/ *signature: //' | head -6 | tr '\n' ';')
  if [ $code -eq 1 ] && grep -q "^VIOLATION property=$id" "$OUT/$id.log"; then
    echo "CAUGHT $id [$TIER]: $sigs"; RES="$RES{\"check\":\"$id\",\"tier\":\"$TIER\",\"caught\":true,\"signatures\":\"$sigs\"},"
  else
    echo "MISSED $id [$TIER] (exit $code): $(tail -1 "$OUT/$id.log")"; RES="$RES{\"check\":\"$id\",\"tier\":\"$TIER\",\"caught\":false,\"exit\":$code},"
  fi
done
DST="$ROOT/seeded/$NAME"; mkdir -p "$DST"
if [ "$SRC" != "$(readlink -f "$DST")" ]; then
  cp "$SRC/patch.diff" "$SRC/demo_test.go" "$DST/"; [ -f "$SRC/notes.md" ] && cp "$SRC/notes.md" "$DST/notes.md"
fi
python3 - "$DST" "$NAME" "$PROP" "$VALID" "$B" "$S" "$D0" "$D1" "[${RES%,}]" <<'PY'
import json,sys,os
dst,name,prop,valid,b,s,d0,d1,res=sys.argv[1:]
p=os.path.join(dst,'meta.json')
meta=json.load(open(p)) if os.path.exists(p) else {}
meta.update({"name":name,"breaks_property":prop,"valid_seeded_change":valid=="true",
 "confirmed":{"go_build_exit":int(b),"stable_suite_exit_with_patch":int(s),"demo_exit_without_patch":int(d0),"demo_exit_with_patch":int(d1),
   "how":"scratch worktree of /repo HEAD; demo copied to seeded_demo/; go test -vet=off -count=1 ./seeded_demo before and after git apply patch.diff; stable suite = go test -vet=off -count=1 ./combination ./pot ./regulator ./settlement ./testcases"}})
runs=meta.get("check_runs",[])
for r in json.loads(res):
    runs=[x for x in runs if not (x["check"]==r["check"] and x["tier"]==r["tier"])]+[r]
meta["check_runs"]=runs
meta.setdefault("needs_to_manifest","see notes.md")
json.dump(meta,open(p,'w'),indent=1)
PY
