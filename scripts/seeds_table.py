#!/usr/bin/env python3
import json, glob, os
print("# Seeded changes (independent sub-agents) and which checks catch them\n")
print("Every change compiles, passes the repository's 61 stable tests, and comes with a demonstration test that fails with it and passes without it (confirmed in a scratch worktree, see meta.json). `quick` = the quick tier of the named check run against a worktree with the change applied.\n")
print("| seeded change | breaks | needs to manifest | caught by (quick) | missed by (quick) |\n| --- | --- | --- | --- | --- |")
for p in sorted(glob.glob(os.path.join(os.path.dirname(__file__), "..", "seeded", "*", "meta.json"))):
    m = json.load(open(p))
    caught = sorted(r["check"] + " [" + r.get("signatures", "").rstrip(";").replace("|", "/")[:90] + "]" for r in m.get("check_runs", []) if r.get("caught"))
    missed = sorted(r["check"] for r in m.get("check_runs", []) if not r.get("caught"))
    print("| %s | %s | %s | %s | %s |" % (m["name"], m["breaks_property"], m.get("needs_to_manifest", "").replace("|", "/"), "; ".join(caught), ", ".join(missed)))
