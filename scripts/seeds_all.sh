#!/bin/bash
# Re-verifies every seeded change under /verif/seeded against the current /repo HEAD and the current checks.
# usage: scripts/seeds_all.sh [quick|thorough]
cd "$(dirname "$0")/.."
export TIER=${1:-quick}
for d in seeded/*/; do
  n=$(basename "$d")
  prop=$(python3 -c "import json;print(json.load(open('$d/meta.json'))['breaks_property'])")
  checks=$(python3 -c "import json;print(' '.join(sorted({r['check'] for r in json.load(open('$d/meta.json'))['check_runs'] if r.get('caught')} | {'$prop'})))")
  echo "== $n ($prop): $checks"
  scripts/seeded_verify.sh "$d" "$n" "$prop" $checks 2>&1 | grep -E "^build=|CAUGHT|MISSED|PATCH"
done
python3 scripts/seeds_table.py > seeded/README.md
