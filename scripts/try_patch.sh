#!/bin/bash
# usage: scripts/try_patch.sh <patch.diff> [-R] <check id>...   (developer tool)
# Applies the patch to a scratch worktree of /repo (never to /repo itself),
# runs the repository's stable tests there, then the given checks (quick tier)
# against that tree. Prints one line per check: CAUGHT / MISSED. Removes the worktree.
set -u
export GOFLAGS=-mod=mod GOPROXY=off GOSUMDB=off GOTOOLCHAIN=local
ROOT=$(cd "$(dirname "$0")/.." && pwd)
PATCH=$(readlink -f "$1"); shift
REV=""
if [ "${1:-}" = "-R" ]; then REV="-R"; shift; fi
TIER=${TIER:-quick}
WT=$(mktemp -d /tmp/trypatch.XXXXXX)
OUT=$(mktemp -d /tmp/tryout.XXXXXX)
cleanup() { git -C /repo worktree remove --force "$WT" >/dev/null 2>&1; rm -rf "$WT" "$OUT"; }
trap cleanup EXIT
rmdir "$WT"
git -C /repo worktree add -q --detach "$WT" HEAD || exit 2
if ! git -C "$WT" apply $REV "$PATCH"; then echo "PATCH-DOES-NOT-APPLY $PATCH"; exit 2; fi
cp "$ROOT/known_findings.json" "$OUT/"
if (cd "$WT" && go build ./... && go test -vet=off -count=1 ./combination ./pot ./regulator ./settlement ./testcases >"$OUT/suite.log" 2>&1); then
  echo "SUITE passes with patch $(basename "$PATCH") $REV"
else
  echo "SUITE FAILS with patch $(basename "$PATCH") $REV (not a valid seeded change)"; tail -5 "$OUT/suite.log"
fi
for id in "$@"; do
  VERIF_REPO="$WT" VERIF_OUT="$OUT" "$ROOT/scripts/run.sh" "$id" "$TIER" >"$OUT/$id.log" 2>&1
  code=$?
  if [ $code -eq 1 ] && grep -q "^VIOLATION property=$id" "$OUT/$id.log"; then
    echo "CAUGHT $id: $(grep -A1 '^VIOLATION' "$OUT/$id.log" | grep signature | head -3 | tr '\n' ' ')"
  else
    echo "MISSED $id (exit $code): $(tail -1 "$OUT/$id.log")"
  fi
done
