#!/bin/bash
# usage: scripts/build.sh <out-binary>   (developer helper: instrumented build of vcheck, kept)
set -eu
export GOFLAGS=-mod=mod GOPROXY=off GOSUMDB=off GOTOOLCHAIN=local
ROOT=$(cd "$(dirname "$0")/.." && pwd)
REPO=${VERIF_REPO:-/repo}
OUT=$1
W=$OUT.build
rm -rf "$W"; mkdir -p "$W"
cd "$ROOT"
go build -o bin/vinst ./tools/vinst
bin/vinst -repo "$REPO" -shim "$ROOT/shim" -out "$W/inst"
sed "s#=> /repo#=> $REPO#" go.mod > "$W/go.mod"; cp "$REPO/go.sum" "$W/go.sum"
go build -modfile="$W/go.mod" -tags verif -overlay "$W/inst/overlay.json" -o "$OUT" ./cmd/vcheck
