#!/bin/bash
# Builds the framework from files on disk only (offline) and pre-warms the Go
# build cache, including the instrumented overlay build used by every check.
set -eu
export GOFLAGS=-mod=mod GOPROXY=off GOSUMDB=off GOTOOLCHAIN=local
ROOT=$(cd "$(dirname "$0")/.." && pwd)
cd "$ROOT"
mkdir -p bin evidence replays
cp /repo/go.sum "$ROOT/go.sum"
go build -o bin/vinst ./tools/vinst
W=$(mktemp -d /tmp/vsetup.XXXXXX)
trap 'rm -rf "$W"' EXIT
bin/vinst -repo /repo -shim "$ROOT/shim" -out "$W/inst"
go build -tags verif -overlay "$W/inst/overlay.json" -o "$W/vcheck" ./cmd/vcheck
echo "setup ok"
