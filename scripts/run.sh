#!/bin/bash
# usage: scripts/run.sh <ID> [quick|thorough]   |   scripts/run.sh replay <file>
# Rebuilds the instrumented overlay and the checker from the current /repo
# working tree (VERIF_REPO overrides the tree, for scratch worktrees), runs it,
# and removes all build output. VERIF_OUT redirects evidence/replays (used when
# checking scratch worktrees, so that /verif/evidence only ever comes from /repo).
set -u
export GOFLAGS=-mod=mod GOPROXY=off GOSUMDB=off GOTOOLCHAIN=local
ROOT=$(cd "$(dirname "$0")/.." && pwd)
REPO=${VERIF_REPO:-/repo}
W=$(mktemp -d /tmp/vcheck.XXXXXX)
trap 'rm -rf "$W"' EXIT
cd "$ROOT" || exit 2
if [ ! -x "$ROOT/bin/vinst" ] || [ "$ROOT/tools/vinst/main.go" -nt "$ROOT/bin/vinst" ]; then
  mkdir -p "$ROOT/bin"
  go build -o "$ROOT/bin/vinst" ./tools/vinst || { echo "HARNESS-ERROR cannot build vinst"; exit 2; }
fi
"$ROOT/bin/vinst" -repo "$REPO" -shim "$ROOT/shim" -out "$W/inst" || { echo "HARNESS-ERROR instrumentation of $REPO failed"; exit 2; }
sed "s#=> /repo#=> $REPO#" "$ROOT/go.mod" > "$W/go.mod"
cp "$REPO/go.sum" "$W/go.sum"
go build -modfile="$W/go.mod" -tags verif -overlay "$W/inst/overlay.json" -o "$W/vcheck" ./cmd/vcheck \
  || { echo "HARNESS-ERROR build against $REPO failed"; exit 2; }
if [ "${1:-}" = "C18" ] && [ "${2:-quick}" = "thorough" ]; then
  # separate free-running pass: real sync, un-instrumented seat manager, Go race detector
  if go build -race -modfile="$W/go.mod" -o "$W/racepass" ./cmd/racepass >"$W/race.log" 2>&1; then
    GORACE="halt_on_error=0 exitcode=66" "$W/racepass" 300 >>"$W/race.log" 2>&1
    export VERIF_RACE_EXIT=$?
  else
    export VERIF_RACE_EXIT=buildfail
  fi
  export VERIF_RACE_LOG="$W/race.log"
fi
# address-space cap: a state explosion ends as a Go "out of memory" crash of this check (exit 2), not as the
# kernel killing whatever else runs on the machine
( ulimit -v "${VERIF_MEM_KB:-45000000}" 2>/dev/null; VERIF_ROOT="${VERIF_OUT:-$ROOT}" VERIF_REPO="$REPO" exec "$W/vcheck" "$@" )
