#!/usr/bin/env python3
"""Systematic operator mutation of the pokerface sources (developer tool).

For every occurrence of a comparison / boolean / small-arithmetic operator in the
listed files one mutant is made in a scratch worktree of /repo. A mutant that
does not build or that the repository's stable suite kills is skipped; the
survivors are run against the checks that own the file. Survivors that no check
reports are written to mutants/opmut_survivors.md for manual examination
(equivalent mutant, or a gap in an oracle).

usage: scripts/opmut.py <group> [max]     group: hand | pots | seats | regulator | cards
"""
import os, re, subprocess, sys, tempfile, shutil, json

ROOT = os.path.dirname(os.path.dirname(os.path.abspath(__file__)))
ENV = dict(os.environ, GOFLAGS="-mod=mod", GOPROXY="off", GOSUMDB="off", GOTOOLCHAIN="local", VERIF_STOP_AT_FIRST="1")
GROUPS = {
 "hand": (["game.go", "player.go", "event.go", "action.go", "pot.go", "power.go", "settlement.go", "game_state.go"], "C01,C04,C05,C06,C11,C12,C13,C14,C15,C10,C07"),
 "pots": (["pot/level_list.go", "settlement/settlement.go", "settlement/rank.go", "settlement/level.go", "settlement/pot.go"], "C16,C02"),
 "seats": (["seat_manager/seat_manager.go"], "C17,C08,C18"),
 "regulator": (["regulator/regulator.go"], "C09,C19,C20"),
 "cards": (["combination/power.go", "combination/element.go", "combination/combination.go", "combination/card.go"], "C03,C10"),
}
OPS = [("<=", "<"), (">=", ">"), ("==", "!="), ("!=", "=="), ("&&", "||"), ("||", "&&"), (" < ", " <= "), (" > ", " >= "), (" + 1", " + 2"), (" - 1", " - 0"), ("++", "--"), ("+=", "-="), ("-=", "+=")]

def sh(cmd, cwd=None, timeout=1800):
    try:
        return subprocess.run(cmd, shell=True, cwd=cwd, env=ENV, capture_output=True, text=True, timeout=timeout)
    except subprocess.TimeoutExpired:
        class R: returncode = 124; stdout = ""; stderr = "timeout"
        return R()

def mutants_of(src):
    out = []
    lines = src.split("\n")
    for i, line in enumerate(lines):
        code = line.split("//")[0]
        if not code.strip() or code.strip().startswith(("import", "package")) or '"' in code and code.count('"') % 2:
            continue
        for a, b in OPS:
            start = 0
            while True:
                k = code.find(a, start)
                if k < 0: break
                start = k + len(a)
                # skip inside string literals (rough)
                if code[:k].count('"') % 2: continue
                if a in ("<", ">") and (code[k-1:k+2].count("=") or code[k:k+2] in ("<-", "<<", ">>")): continue
                if a == " < " and code[k:k+4] == " <- ": continue
                if a in ("==", "!=") and "err" in code: continue   # error-handling branches: mostly unreachable in the harness
                new = line[:k] + b + line[k+len(a):]
                out.append((i + 1, a, b, "\n".join(lines[:i] + [new] + lines[i+1:])))
    return out

def main():
    group = sys.argv[1]; limit = int(sys.argv[2]) if len(sys.argv) > 2 else 10**9
    files, checks = GROUPS[group]
    wt = tempfile.mkdtemp(prefix="opmut.", dir="/tmp"); os.rmdir(wt)
    out = tempfile.mkdtemp(prefix="opmutout.", dir="/tmp")
    sh(f"git -C /repo worktree add -q --detach {wt} HEAD")
    shutil.copy(f"{ROOT}/known_findings.json", out)
    res_path = f"{ROOT}/mutants/opmut_{group}.jsonl"
    done = set()
    if os.path.exists(res_path):
        for l in open(res_path):
            r = json.loads(l); done.add((r["file"], r["line"], r["from"], r["to"], r.get("col", 0)))
    n = 0
    try:
        with open(res_path, "a") as log:
            for f in files:
                p = os.path.join(wt, f); orig = open(p).read()
                seen_line_op = {}
                for (ln, a, b, mutated) in mutants_of(orig):
                    col = seen_line_op.get((ln, a), 0); seen_line_op[(ln, a)] = col + 1
                    key = (f, ln, a, b, col)
                    if key in done: continue
                    if n >= limit: return
                    n += 1
                    open(p, "w").write(mutated)
                    rec = {"file": f, "line": ln, "from": a, "to": b, "col": col, "text": orig.split("\n")[ln-1].strip()}
                    pkgs = "./combination ./pot ./regulator ./settlement ./testcases"
                    b1 = sh("go build ./... ", cwd=wt)
                    if b1.returncode != 0:
                        rec["status"] = "does-not-build"
                    else:
                        t = sh(f"go test -vet=off -count=1 -timeout 120s {pkgs}", cwd=wt, timeout=300)
                        if t.returncode != 0:
                            rec["status"] = "killed-by-suite"
                        else:
                            r = sh(f"VERIF_REPO={wt} VERIF_OUT={out} {ROOT}/scripts/run.sh {checks} quick")
                            sigs = [l.strip() for l in r.stdout.splitlines() if l.startswith("VIOLATION") or l.strip().startswith("signature:")]
                            if r.returncode == 1:
                                rec["status"] = "caught"; rec["by"] = sigs[:4]
                            elif r.returncode == 0:
                                rec["status"] = "SURVIVED"
                            else:
                                rec["status"] = "harness-exit-%d" % r.returncode; rec["tail"] = (r.stdout + r.stderr)[-300:]
                    log.write(json.dumps(rec) + "\n"); log.flush()
                    print(rec["status"], f, ln, a, "->", b, "|", rec["text"][:70], flush=True)
                    open(p, "w").write(orig)
                open(p, "w").write(orig)
    finally:
        sh(f"git -C /repo worktree remove --force {wt}"); shutil.rmtree(out, ignore_errors=True); shutil.rmtree(wt, ignore_errors=True)

if __name__ == "__main__":
    main()
