// Package vsync stands in for "sync" in instrumented packages (import alias
// rewrite). Mutex and RWMutex become scheduler-visible; everything else is the
// real thing.
package vsync

import (
	"sync"

	"github.com/weedbox/pokerface/verifshim/vrt"
)

type (
	Mutex     = vrt.Mutex
	RWMutex   = vrt.RWMutex
	WaitGroup = sync.WaitGroup
	Once      = sync.Once
	Map       = sync.Map
	Pool      = sync.Pool
	Locker    = sync.Locker
)
