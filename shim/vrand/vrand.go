// Package vrand stands in for "math/rand" in instrumented packages: every
// answer is an explorer choice (default 0).
package vrand

import "github.com/weedbox/pokerface/verifshim/vrt"

func Seed(s int64)                       { vrt.RandSeed(s) }
func Intn(n int) int                     { return vrt.RandIntn(n) }
func Int31n(n int32) int32               { return int32(vrt.RandIntn(int(n))) }
func Int63n(n int64) int64               { return int64(vrt.RandIntn(int(n))) }
func Shuffle(n int, swap func(i, j int)) { vrt.RandShuffle(n, swap) }
func Int() int                           { return 0 }
func Int63() int64                       { return 0 }
func Int31() int32                       { return 0 }
func Uint32() uint32                     { return 0 }
func Float64() float64                   { return 0 }
func Perm(n int) []int {
	p := make([]int, n)
	for i := range p {
		p[i] = i
	}
	vrt.RandShuffle(n, func(i, j int) { p[i], p[j] = p[j], p[i] })
	return p
}

// A private generator (rand.New(rand.NewSource(seed))) is answered by the explorer exactly like the
// package-level functions: the seed is ignored, every draw is a choice point.
type Source interface {
	Int63() int64
	Seed(seed int64)
}

type Source64 interface {
	Source
	Uint64() uint64
}

type src struct{}

func (src) Int63() int64   { return 0 }
func (src) Seed(int64)     {}
func (src) Uint64() uint64 { return 0 }

func NewSource(seed int64) Source { return src{} }

type Rand struct{}

func New(s Source) *Rand { return &Rand{} }

func (*Rand) Seed(s int64)                       {}
func (*Rand) Intn(n int) int                     { return Intn(n) }
func (*Rand) Int31n(n int32) int32               { return Int31n(n) }
func (*Rand) Int63n(n int64) int64               { return Int63n(n) }
func (*Rand) Shuffle(n int, swap func(i, j int)) { Shuffle(n, swap) }
func (*Rand) Perm(n int) []int                   { return Perm(n) }
func (*Rand) Int() int                           { return 0 }
func (*Rand) Int63() int64                       { return 0 }
func (*Rand) Int31() int32                       { return 0 }
func (*Rand) Uint32() uint32                     { return 0 }
func (*Rand) Uint64() uint64                     { return 0 }
func (*Rand) Float64() float64                   { return 0 }
func (*Rand) Float32() float32                   { return 0 }
