// Package vrand stands in for "math/rand" in instrumented packages: every
// answer is an explorer choice (default 0).
package vrand

import "github.com/weedbox/pokerface/verifshim/vrt"

func Seed(s int64)                       { vrt.RandSeed(s) }
func Intn(n int) int                     { return vrt.RandIntn(n) }
func Int31n(n int32) int32               { return int32(vrt.RandIntn(int(n))) }
func Int63n(n int64) int64               { return int64(vrt.RandIntn(int(n))) }
func Shuffle(n int, swap func(i, j int)) { vrt.RandShuffle(n, swap) }
func Int() int                           { return 0 }
func Int63() int64                       { return 0 }
func Int31() int32                       { return 0 }
func Uint32() uint32                     { return 0 }
func Float64() float64                   { return 0 }
func Perm(n int) []int {
	p := make([]int, n)
	for i := range p {
		p[i] = i
	}
	vrt.RandShuffle(n, func(i, j int) { p[i], p[j] = p[j], p[i] })
	return p
}
