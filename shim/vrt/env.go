package vrt

import (
	"fmt"
	"sort"
)

// ---- math/rand seam ----------------------------------------------------------
// The instrumenter rewrites `import "math/rand"` to an alias of package
// verifshim/vrand, which forwards here.

func RandSeed(int64) {}

func RandIntn(n int) int {
	if n <= 0 {
		panic("invalid argument to Intn")
	}
	return Choose("rand", n)
}

// RandShuffle performs the Fisher-Yates call pattern of math/rand.Shuffle:
// for i = n-1 .. 1: swap(i, j) with 0 <= j <= i, j chosen by the explorer.
// Default (choice 0) is j = i, i.e. the identity permutation.
func RandShuffle(n int, swap func(i, j int)) {
	if n < 0 {
		panic("invalid argument to Shuffle")
	}
	for i := n - 1; i > 0; i-- {
		j := i - Choose("shuffle", i+1)
		swap(i, j)
	}
}

// ---- map iteration seam -------------------------------------------------------

// MapIter iterates a map in an order decided by the explorer. Like the Go
// runtime it never yields a key twice, never yields a key that was deleted
// before being reached, and (a permitted choice) never yields keys inserted
// during the iteration.
type MapIter[K comparable, V any] struct {
	m    map[K]V
	rest []K
	k    K
	v    V
}

func less(a, b any) bool {
	switch x := a.(type) {
	case int:
		return x < b.(int)
	case int64:
		return x < b.(int64)
	case int32:
		return x < b.(int32)
	case uint:
		return x < b.(uint)
	case uint64:
		return x < b.(uint64)
	case string:
		return x < b.(string)
	}
	return fmt.Sprint(a) < fmt.Sprint(b)
}

func MapRange[K comparable, V any](m map[K]V) *MapIter[K, V] {
	it := &MapIter[K, V]{m: m, rest: make([]K, 0, len(m))}
	for k := range m {
		it.rest = append(it.rest, k)
	}
	sort.Slice(it.rest, func(i, j int) bool { return less(it.rest[i], it.rest[j]) })
	return it
}

func (it *MapIter[K, V]) Next() bool {
	// drop keys deleted since the snapshot
	live := it.rest[:0]
	for _, k := range it.rest {
		if _, ok := it.m[k]; ok {
			live = append(live, k)
		}
	}
	it.rest = live
	if len(it.rest) == 0 {
		return false
	}
	i := Choose("map", len(it.rest))
	it.k = it.rest[i]
	it.v = it.m[it.k]
	it.rest = append(it.rest[:i], it.rest[i+1:]...)
	return true
}

func (it *MapIter[K, V]) Key() K { return it.k }
func (it *MapIter[K, V]) Val() V { return it.v }
