// Package vrt is the verification runtime that instrumented copies of the
// pokerface packages are linked against. It is mounted virtually (go build
// -overlay) at github.com/weedbox/pokerface/verifshim/vrt, so /repo is never
// written. It owns every source of nondeterminism the instrumenter rewrites:
// map iteration order, math/rand answers, and (for seat_manager) goroutine
// scheduling at statement granularity.
//
// With no Chooser attached every answer is the default (choice 0): ascending
// key order, rand answer 0, identity shuffle, real sync locks.
package vrt

import (
	"fmt"
	"sync/atomic"
	"syscall"
)

// Pt is one recorded nondeterministic choice.
type Pt struct {
	Kind   string // "map", "rand", "shuffle", "sched"
	N      int    // number of alternatives
	Picked int    // alternative taken (0 = default)
	Free   bool   // a non-default pick costs nothing (sched: running thread was not enabled)
}

// Chooser answers choice points: it replays Prefix, then answers 0.
type Chooser struct {
	Prefix []int
	Trace  []Pt
	Err    string // set when the prefix does not fit the execution (replay divergence)
}

func NewChooser(prefix []int) *Chooser { return &Chooser{Prefix: prefix} }

func (c *Chooser) choose(kind string, n int, free bool) int {
	if n <= 0 {
		panic(fmt.Sprintf("vrt: choice point %q with %d alternatives", kind, n))
	}
	pick := 0
	i := len(c.Trace)
	if i < len(c.Prefix) {
		pick = c.Prefix[i]
		if pick < 0 || pick >= n {
			if c.Err == "" {
				c.Err = fmt.Sprintf("prefix choice %d out of range at point %d (%s, n=%d)", pick, i, kind, n)
			}
			pick = 0
		}
	}
	c.Trace = append(c.Trace, Pt{Kind: kind, N: n, Picked: pick, Free: free})
	return pick
}

// Choices returns the picks taken so far.
func (c *Chooser) Choices() []int {
	out := make([]int, len(c.Trace))
	for i, p := range c.Trace {
		out[i] = p.Picked
	}
	return out
}

// ---- per-OS-thread registry -------------------------------------------------
//
// BFS workers are goroutines locked to their OS thread (runtime.LockOSThread);
// each attaches its own Chooser around one operation on its own object.

const maxSlots = 128

type slot struct {
	tid atomic.Int64
	ch  atomic.Pointer[Chooser]
}

var (
	nAttached atomic.Int32
	slots     [maxSlots]slot
)

// Attach registers c for the calling OS thread. The caller must have called
// runtime.LockOSThread. The returned function detaches it.
func Attach(c *Chooser) func() {
	tid := int64(syscall.Gettid())
	for i := range slots {
		if slots[i].tid.CompareAndSwap(0, tid) {
			slots[i].ch.Store(c)
			nAttached.Add(1)
			s := &slots[i]
			return func() {
				s.ch.Store(nil)
				s.tid.Store(0)
				nAttached.Add(-1)
			}
		}
	}
	panic("vrt: out of chooser slots")
}

func current() *Chooser {
	if s := sched.Load(); s != nil {
		return s.ch
	}
	if nAttached.Load() == 0 {
		return nil
	}
	tid := int64(syscall.Gettid())
	for i := range slots {
		if slots[i].tid.Load() == tid {
			return slots[i].ch.Load()
		}
	}
	return nil
}

// Choose is the generic environment choice (cost 1 for a non-default answer).
func Choose(kind string, n int) int {
	if n <= 1 {
		return 0
	}
	c := current()
	if c == nil {
		return 0
	}
	return c.choose(kind, n, false)
}
