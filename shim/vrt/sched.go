package vrt

import (
	"fmt"
	"runtime/debug"
	"sync"
	"sync/atomic"
)

// Cooperative scheduler: harness threads are goroutines of which exactly one
// runs at any time. Point() (inserted before every statement of the
// instrumented package, and called by every lock operation) hands control to
// the scheduler, which asks the Chooser which enabled thread continues.
// Canonical order of alternatives: the running thread first if it is still
// enabled, then the others by ascending id; so choice 0 = "no preemption".

type tstate int

const (
	tRunnable tstate = iota
	tBlocked
	tDone
)

type thread struct {
	id    int
	wake  chan bool // true = run, false = abort
	state tstate
	panic string
}

type Sched struct {
	ch       *Chooser
	threads  []*thread
	cur      *thread
	steps    int
	horizon  int
	done     chan struct{}
	aborting bool

	Deadlock bool
	Livelock bool
}

var sched atomic.Pointer[Sched]

type abortSentinel struct{}

// RunResult is what one controlled execution observed.
type RunResult struct {
	Deadlock bool
	Livelock bool
	Steps    int
	Panics   []string // per thread, "" if none
}

// Run executes fns as threads 0..n-1 under the scheduler driven by ch and
// returns when all have finished (or on deadlock / horizon overrun).
func Run(ch *Chooser, horizon int, fns ...func()) RunResult {
	s := &Sched{ch: ch, horizon: horizon, done: make(chan struct{})}
	for i := range fns {
		s.threads = append(s.threads, &thread{id: i, wake: make(chan bool, 1)})
	}
	if !sched.CompareAndSwap(nil, s) {
		panic("vrt: nested/concurrent Run")
	}
	var wg sync.WaitGroup
	for i, fn := range fns {
		t := s.threads[i]
		fn := fn
		wg.Add(1)
		go func() {
			defer wg.Done()
			if ok := <-t.wake; !ok {
				t.state = tDone
				return
			}
			defer func() {
				if r := recover(); r != nil {
					if _, isAbort := r.(abortSentinel); !isAbort {
						t.panic = fmt.Sprintf("%v\n%s", r, debug.Stack())
					}
				}
				t.state = tDone
				if s.aborting {
					return
				}
				s.switchFrom(t, true)
			}()
			fn()
		}()
	}
	// start: first scheduling decision among all threads (free: nobody runs yet)
	s.cur = nil
	s.dispatch(nil)
	<-s.done
	// unwind whatever is still parked
	s.aborting = true
	for _, t := range s.threads {
		if t.state != tDone {
			select {
			case t.wake <- false:
			default:
			}
		}
	}
	wg.Wait()
	sched.Store(nil)
	res := RunResult{Deadlock: s.Deadlock, Livelock: s.Livelock, Steps: s.steps}
	for _, t := range s.threads {
		res.Panics = append(res.Panics, t.panic)
	}
	return res
}

func (s *Sched) enabled(from *thread) []*thread {
	var out []*thread
	if from != nil && from.state == tRunnable {
		out = append(out, from)
	}
	for _, t := range s.threads {
		if t != from && t.state == tRunnable {
			out = append(out, t)
		}
	}
	return out
}

// dispatch picks the next thread to run and wakes it. It returns the chosen
// thread (nil if none).
func (s *Sched) dispatch(from *thread) *thread {
	en := s.enabled(from)
	if len(en) == 0 {
		all := true
		for _, t := range s.threads {
			if t.state != tDone {
				all = false
			}
		}
		if !all {
			s.Deadlock = true
		}
		close(s.done)
		return nil
	}
	s.steps++
	if s.steps > s.horizon {
		s.Livelock = true
		close(s.done)
		return nil
	}
	pick := 0
	if len(en) > 1 {
		free := from == nil || from.state != tRunnable
		pick = s.ch.choose("sched", len(en), free)
	}
	next := en[pick]
	s.cur = next
	if next != from {
		next.wake <- true
	}
	return next
}

// switchFrom is called by the running thread t at a scheduling point (or when
// it blocks / finishes). It returns when t is scheduled again.
func (s *Sched) switchFrom(t *thread, exiting bool) {
	next := s.dispatch(t)
	if exiting {
		return
	}
	if next == t {
		return
	}
	if ok := <-t.wake; !ok {
		panic(abortSentinel{})
	}
}

// Point is a scheduling point. Outside a controlled run it does nothing.
func Point() {
	s := sched.Load()
	if s == nil {
		return
	}
	t := s.cur
	if t == nil {
		return
	}
	s.switchFrom(t, false)
}

// block parks the running thread until another thread makes it runnable.
func (s *Sched) block(t *thread) {
	t.state = tBlocked
	s.switchFrom(t, false)
}

// ---- locks --------------------------------------------------------------------

type waiters struct{ ts []*thread }

func (w *waiters) add(t *thread) { w.ts = append(w.ts, t) }
func (w *waiters) wakeAll() {
	for _, t := range w.ts {
		if t.state == tBlocked {
			t.state = tRunnable
		}
	}
	w.ts = w.ts[:0]
}

// Mutex behaves as sync.Mutex outside a controlled run and as a scheduler
// visible lock inside one.
type Mutex struct {
	real   sync.Mutex
	locked bool
	w      waiters
}

func (m *Mutex) Lock() {
	s := sched.Load()
	if s == nil || s.cur == nil {
		m.real.Lock()
		return
	}
	Point()
	for m.locked {
		m.w.add(s.cur)
		s.block(s.cur)
	}
	m.locked = true
}

func (m *Mutex) TryLock() bool {
	s := sched.Load()
	if s == nil || s.cur == nil {
		return m.real.TryLock()
	}
	Point()
	if m.locked {
		return false
	}
	m.locked = true
	return true
}

func (m *Mutex) Unlock() {
	s := sched.Load()
	if s == nil || s.cur == nil {
		m.real.Unlock()
		return
	}
	if !m.locked {
		panic("sync: unlock of unlocked mutex")
	}
	m.locked = false
	m.w.wakeAll()
	Point()
}

// RWMutex: writer-exclusive, readers shared; no writer preference is modelled
// (any enabled thread may be chosen), which over-approximates sync.RWMutex
// for terminating harnesses.
type RWMutex struct {
	real    sync.RWMutex
	writer  bool
	readers int
	w       waiters
}

func (m *RWMutex) Lock() {
	s := sched.Load()
	if s == nil || s.cur == nil {
		m.real.Lock()
		return
	}
	Point()
	for m.writer || m.readers > 0 {
		m.w.add(s.cur)
		s.block(s.cur)
	}
	m.writer = true
}

func (m *RWMutex) Unlock() {
	s := sched.Load()
	if s == nil || s.cur == nil {
		m.real.Unlock()
		return
	}
	if !m.writer {
		panic("sync: Unlock of unlocked RWMutex")
	}
	m.writer = false
	m.w.wakeAll()
	Point()
}

func (m *RWMutex) RLock() {
	s := sched.Load()
	if s == nil || s.cur == nil {
		m.real.RLock()
		return
	}
	Point()
	for m.writer {
		m.w.add(s.cur)
		s.block(s.cur)
	}
	m.readers++
}

func (m *RWMutex) RUnlock() {
	s := sched.Load()
	if s == nil || s.cur == nil {
		m.real.RUnlock()
		return
	}
	if m.readers <= 0 {
		panic("sync: RUnlock of unlocked RWMutex")
	}
	m.readers--
	if m.readers == 0 {
		m.w.wakeAll()
	}
	Point()
}

func (m *RWMutex) TryLock() bool {
	s := sched.Load()
	if s == nil || s.cur == nil {
		return m.real.TryLock()
	}
	Point()
	if m.writer || m.readers > 0 {
		return false
	}
	m.writer = true
	return true
}

func (m *RWMutex) TryRLock() bool {
	s := sched.Load()
	if s == nil || s.cur == nil {
		return m.real.TryRLock()
	}
	Point()
	if m.writer {
		return false
	}
	m.readers++
	return true
}
