// vinst instruments the pokerface packages of the *current* /repo working tree
// and writes a `go build -overlay` JSON. /repo itself is never written.
//
// Passes:
//
//	maprange : for k, v := range <map> {B}  ->  for it := vrt.MapRange(m); it.Next(); { k, v := it.Key(), it.Val(); B }
//	imports  : "sync" -> verifshim/vsync, "math/rand" -> verifshim/vrand (alias keeps the original name)
//	points   : vrt.Point() before every statement of every function body
//
// Which pass applies to which package is fixed below; map ranges are located
// with go/types, so a map range added by a change to /repo is owned as well.
package main

import (
	"bytes"
	"encoding/json"
	"flag"
	"fmt"
	"go/ast"
	"go/build/constraint"
	"go/importer"
	"go/parser"
	"go/printer"
	"go/token"
	"go/types"
	"os"
	"path/filepath"
	"sort"
	"strings"
)

const shimBase = "github.com/weedbox/pokerface/verifshim/"

type pkgPlan struct {
	dir      string // relative to repo root ("." for root)
	mapRange bool
	sync     bool
	rand     bool
	points   bool
}

var plans = []pkgPlan{
	{dir: ".", mapRange: true, rand: true},
	{dir: "pot", mapRange: true},
	{dir: "settlement", mapRange: true},
	{dir: "combination", mapRange: true},
	{dir: "regulator", mapRange: true},
	{dir: "seat_manager", mapRange: true, sync: true, rand: true, points: true},
}

type report struct {
	MapRanges []string `json:"map_ranges"`
	Imports   []string `json:"imports_rewritten"`
	Points    int      `json:"points"`
	Files     []string `json:"files_rewritten"`
	Warnings  []string `json:"warnings"`
}

func main() {
	repo := flag.String("repo", "/repo", "repository root")
	shim := flag.String("shim", "/verif/shim", "shim source directory")
	out := flag.String("out", "", "output directory for rewritten files + overlay.json")
	flag.Parse()
	if *out == "" {
		fmt.Fprintln(os.Stderr, "vinst: -out required")
		os.Exit(2)
	}
	if err := os.MkdirAll(*out, 0o755); err != nil {
		fatal(err)
	}
	overlay := map[string]string{}
	rep := &report{}

	// mount the shim packages virtually inside the pokerface module
	for _, p := range []string{"vrt", "vsync", "vrand"} {
		ents, err := os.ReadDir(filepath.Join(*shim, p))
		if err != nil {
			fatal(err)
		}
		for _, e := range ents {
			if strings.HasSuffix(e.Name(), ".go") {
				overlay[filepath.Join(*repo, "verifshim", p, e.Name())] = filepath.Join(*shim, p, e.Name())
			}
		}
	}

	for _, pl := range plans {
		if err := instrument(*repo, *out, pl, overlay, rep); err != nil {
			rep.Warnings = append(rep.Warnings, fmt.Sprintf("%s: %v", pl.dir, err))
			fatal(fmt.Errorf("instrumenting %s: %w", pl.dir, err))
		}
	}

	ov, _ := json.MarshalIndent(map[string]any{"Replace": overlay}, "", " ")
	if err := os.WriteFile(filepath.Join(*out, "overlay.json"), ov, 0o644); err != nil {
		fatal(err)
	}
	sort.Strings(rep.MapRanges)
	rb, _ := json.MarshalIndent(rep, "", " ")
	os.WriteFile(filepath.Join(*out, "vinst_report.json"), rb, 0o644)
}

func fatal(err error) {
	fmt.Fprintln(os.Stderr, "vinst:", err)
	os.Exit(2)
}

func buildOK(f *ast.File, src []byte, tags map[string]bool) bool {
	// evaluate //go:build constraints appearing before the package clause
	for _, cg := range f.Comments {
		if cg.Pos() >= f.Package {
			break
		}
		for _, c := range cg.List {
			if constraint.IsGoBuild(c.Text) {
				ex, err := constraint.Parse(c.Text)
				if err != nil {
					continue
				}
				return ex.Eval(func(tag string) bool {
					if tags[tag] {
						return true
					}
					return tag == "linux" || tag == "amd64" || tag == "gc" || strings.HasPrefix(tag, "go1.")
				})
			}
		}
	}
	return true
}

func instrument(repo, out string, pl pkgPlan, overlay map[string]string, rep *report) error {
	dir := filepath.Join(repo, pl.dir)
	fset := token.NewFileSet()
	ents, err := os.ReadDir(dir)
	if err != nil {
		return err
	}
	type pf struct {
		name string
		f    *ast.File
		head string // build constraint line to keep
		keep bool
	}
	var files []*pf
	var astFiles []*ast.File
	for _, e := range ents {
		n := e.Name()
		if e.IsDir() || !strings.HasSuffix(n, ".go") || strings.HasSuffix(n, "_test.go") {
			continue
		}
		src, err := os.ReadFile(filepath.Join(dir, n))
		if err != nil {
			return err
		}
		f, err := parser.ParseFile(fset, filepath.Join(dir, n), src, parser.ParseComments)
		if err != nil {
			return err
		}
		if !buildOK(f, src, map[string]bool{"verif": true}) {
			continue
		}
		head := ""
		for _, cg := range f.Comments {
			if cg.Pos() >= f.Package {
				break
			}
			for _, c := range cg.List {
				if constraint.IsGoBuild(c.Text) {
					head = c.Text
				}
			}
		}
		files = append(files, &pf{name: n, f: f, head: head})
		astFiles = append(astFiles, f)
		if head != "" {
			files[len(files)-1].keep = true // guarded hook file: harness plumbing, compiled as it is
		}
	}
	if len(files) == 0 {
		return nil
	}

	info := &types.Info{Types: map[ast.Expr]types.TypeAndValue{}}
	if pl.mapRange {
		conf := types.Config{
			Importer: importer.ForCompiler(fset, "source", nil),
			Error:    func(error) {}, // keep going; untyped ranges are simply left alone
		}
		cwd, _ := os.Getwd()
		os.Chdir(dir)
		conf.Check(files[0].f.Name.Name, fset, astFiles, info)
		os.Chdir(cwd)
	}

	for _, p := range files {
		if p.keep {
			continue
		}
		changed := false
		needVrt := false
		iterN := 0

		if pl.mapRange {
			// generic walk replacing RangeStmt nodes in any statement list / labeled stmt
			var fix func(s ast.Stmt) ast.Stmt
			fix = func(s ast.Stmt) ast.Stmt {
				switch st := s.(type) {
				case *ast.LabeledStmt:
					st.Stmt = fix(st.Stmt)
					return st
				case *ast.RangeStmt:
					tv, ok := info.Types[st.X]
					if !ok || tv.Type == nil {
						return st
					}
					if _, isMap := tv.Type.Underlying().(*types.Map); !isMap {
						return st
					}
					if st.Key == nil {
						return st // `for range m`: order unobservable
					}
					iterN++
					it := ast.NewIdent(fmt.Sprintf("_vit%d", iterN))
					var lhs []ast.Expr
					var rhs []ast.Expr
					if id, ok := st.Key.(*ast.Ident); !ok || id.Name != "_" {
						lhs = append(lhs, st.Key)
						rhs = append(rhs, &ast.CallExpr{Fun: &ast.SelectorExpr{X: it, Sel: ast.NewIdent("Key")}})
					}
					if st.Value != nil {
						if id, ok := st.Value.(*ast.Ident); !ok || id.Name != "_" {
							lhs = append(lhs, st.Value)
							rhs = append(rhs, &ast.CallExpr{Fun: &ast.SelectorExpr{X: it, Sel: ast.NewIdent("Val")}})
						}
					}
					body := st.Body
					if len(lhs) > 0 {
						as := &ast.AssignStmt{Lhs: lhs, Tok: st.Tok, Rhs: rhs}
						body = &ast.BlockStmt{List: append([]ast.Stmt{as}, st.Body.List...)}
					}
					pos := fset.Position(st.Pos())
					rep.MapRanges = append(rep.MapRanges, fmt.Sprintf("%s/%s:%d", pl.dir, p.name, pos.Line))
					changed, needVrt = true, true
					return &ast.ForStmt{
						Init: &ast.AssignStmt{
							Lhs: []ast.Expr{it}, Tok: token.DEFINE,
							Rhs: []ast.Expr{&ast.CallExpr{
								Fun:  &ast.SelectorExpr{X: ast.NewIdent("vrt"), Sel: ast.NewIdent("MapRange")},
								Args: []ast.Expr{st.X}}},
						},
						Cond: &ast.CallExpr{Fun: &ast.SelectorExpr{X: it, Sel: ast.NewIdent("Next")}},
						Body: body,
					}
				}
				return s
			}
			ast.Inspect(p.f, func(n ast.Node) bool {
				switch b := n.(type) {
				case *ast.BlockStmt:
					for i, s := range b.List {
						b.List[i] = fix(s)
					}
				case *ast.CaseClause:
					for i, s := range b.Body {
						b.Body[i] = fix(s)
					}
				case *ast.CommClause:
					for i, s := range b.Body {
						b.Body[i] = fix(s)
					}
				}
				return true
			})
		}

		if pl.points {
			addPoints := func(list []ast.Stmt) []ast.Stmt {
				out := make([]ast.Stmt, 0, 2*len(list))
				for _, s := range list {
					out = append(out, &ast.ExprStmt{X: &ast.CallExpr{
						Fun: &ast.SelectorExpr{X: ast.NewIdent("vrt"), Sel: ast.NewIdent("Point")}}})
					out = append(out, s)
					rep.Points++
				}
				return out
			}
			for _, d := range p.f.Decls {
				fd, ok := d.(*ast.FuncDecl)
				if !ok || fd.Body == nil {
					continue
				}
				ast.Inspect(fd.Body, func(n ast.Node) bool {
					switch b := n.(type) {
					case *ast.BlockStmt:
						b.List = addPoints(b.List)
					case *ast.CaseClause:
						b.Body = addPoints(b.Body)
					case *ast.CommClause:
						b.Body = addPoints(b.Body)
					}
					return true
				})
				changed, needVrt = true, true
			}
		}

		for _, d := range p.f.Decls {
			gd, ok := d.(*ast.GenDecl)
			if !ok || gd.Tok != token.IMPORT {
				continue
			}
			for _, sp := range gd.Specs {
				is := sp.(*ast.ImportSpec)
				path := strings.Trim(is.Path.Value, `"`)
				repl := ""
				if pl.sync && path == "sync" {
					repl = "vsync"
				}
				if pl.rand && path == "math/rand" {
					repl = "vrand"
				}
				if repl == "" {
					continue
				}
				if is.Name == nil {
					base := path[strings.LastIndex(path, "/")+1:]
					is.Name = ast.NewIdent(base)
				}
				is.Path.Value = `"` + shimBase + repl + `"`
				rep.Imports = append(rep.Imports, fmt.Sprintf("%s/%s:%s", pl.dir, p.name, path))
				changed = true
			}
		}

		if !changed {
			continue
		}
		if needVrt {
			spec := &ast.ImportSpec{Name: ast.NewIdent("vrt"), Path: &ast.BasicLit{Kind: token.STRING, Value: `"` + shimBase + `vrt"`}}
			gd := &ast.GenDecl{Tok: token.IMPORT, Specs: []ast.Spec{spec}}
			p.f.Decls = append([]ast.Decl{gd}, p.f.Decls...)
		}
		p.f.Comments = nil
		p.f.Doc = nil
		var buf bytes.Buffer
		if p.head != "" {
			buf.WriteString(p.head + "\n\n")
		}
		fmt.Fprintf(&buf, "// Code generated by vinst from %s/%s; DO NOT EDIT.\n\n", pl.dir, p.name)
		// print through a fresh fileset-less config: positions of new nodes are zero
		if err := (&printer.Config{Mode: printer.UseSpaces | printer.TabIndent, Tabwidth: 8}).Fprint(&buf, fset, stripDocs(p.f)); err != nil {
			return err
		}
		sub := filepath.Join(out, strings.ReplaceAll(pl.dir, ".", "root"))
		os.MkdirAll(sub, 0o755)
		dst := filepath.Join(sub, p.name)
		if err := os.WriteFile(dst, buf.Bytes(), 0o644); err != nil {
			return err
		}
		overlay[filepath.Join(dir, p.name)] = dst
		rep.Files = append(rep.Files, filepath.Join(pl.dir, p.name))
	}
	return nil
}

// stripDocs removes doc comment groups hanging off declarations so that the
// printer does not interleave stale comments with generated code.
func stripDocs(f *ast.File) *ast.File {
	ast.Inspect(f, func(n ast.Node) bool {
		switch x := n.(type) {
		case *ast.FuncDecl:
			x.Doc = nil
		case *ast.GenDecl:
			x.Doc = nil
		case *ast.TypeSpec:
			x.Doc, x.Comment = nil, nil
		case *ast.ValueSpec:
			x.Doc, x.Comment = nil, nil
		case *ast.Field:
			x.Doc, x.Comment = nil, nil
		case *ast.ImportSpec:
			x.Doc, x.Comment = nil, nil
		}
		return true
	})
	return f
}
