package explore

import (
	"crypto/sha256"
	"encoding/json"
	"fmt"
	"os"
	"path/filepath"
	"sort"
	"strconv"
	"sync"
	"time"
)

// Violation is one counterexample, replayable without the explorer.
type Violation struct {
	Property  string          `json:"property"`
	Engine    string          `json:"engine"`    // which replayer understands it
	Signature string          `json:"signature"` // root-cause class (closed vocabulary per check)
	Message   string          `json:"message"`
	Config    json.RawMessage `json:"config"`
	History   []string        `json:"history"`           // operation labels from the initial state
	Choices   []int           `json:"choices,omitempty"` // environment / scheduler answers of the last step
	Expected  string          `json:"expected,omitempty"`
	Observed  string          `json:"observed,omitempty"`
	Confirmed string          `json:"confirmed,omitempty"`
	GoTest    string          `json:"go_test,omitempty"`

	// GoTestFn renders GoTest lazily (only for violations that are written out).
	GoTestFn func() string `json:"-"`

	// Confirm re-executes the counterexample from scratch on a fresh real
	// object and reports whether the same violation shows.
	Confirm func() (bool, string) `json:"-"`
}

func (v *Violation) size() int { return len(v.History)*1000 + len(v.Choices) }

type Finding struct {
	Property    string `json:"property"`
	ID          string `json:"id"`
	Status      string `json:"status"` // open | fixed
	Commit      string `json:"commit,omitempty"`
	Site        string `json:"site"`
	Signature   string `json:"signature"`
	Description string `json:"description"`
	Example     any    `json:"example,omitempty"`
}

type findingsFile struct {
	Findings []Finding `json:"findings"`
}

// Report collects coverage and violations of one check run and writes the
// evidence file.
type Report struct {
	Property string
	Tier     string
	Seed     int64
	Root     string // /verif

	mu         sync.Mutex
	start      time.Time
	bySig      map[string]*Violation
	alts       map[string][]*Violation // per signature: the smallest counterexample of up to maxAlts other configurations
	sigCount   map[string]int
	Cov        map[string]any
	Assume     []string
	Samples    []any
	exhaustive bool
	caps       []string
	Broken     string // harness failure (exit 2)
}

func NewReport(prop, tier string) *Report {
	seed, _ := strconv.ParseInt(os.Getenv("VERIF_SEED"), 10, 64)
	root := os.Getenv("VERIF_ROOT")
	if root == "" {
		root = "/verif"
	}
	return &Report{Property: prop, Tier: tier, Seed: seed, Root: root, start: time.Now(),
		bySig: map[string]*Violation{}, alts: map[string][]*Violation{}, sigCount: map[string]int{}, Cov: map[string]any{}, exhaustive: true}
}

func (r *Report) Add(key string, n int64) {
	r.mu.Lock()
	defer r.mu.Unlock()
	cur, _ := r.Cov[key].(int64)
	r.Cov[key] = cur + n
}

func (r *Report) Max(key string, n int64) {
	r.mu.Lock()
	defer r.mu.Unlock()
	cur, _ := r.Cov[key].(int64)
	if n > cur {
		r.Cov[key] = n
	}
}

func (r *Report) Set(key string, v any) {
	r.mu.Lock()
	defer r.mu.Unlock()
	r.Cov[key] = v
}

func (r *Report) Get(key string) int64 {
	r.mu.Lock()
	defer r.mu.Unlock()
	cur, _ := r.Cov[key].(int64)
	return cur
}

func (r *Report) Sample(s any) {
	r.mu.Lock()
	defer r.mu.Unlock()
	if len(r.Samples) < 8 {
		r.Samples = append(r.Samples, s)
	}
}

func (r *Report) Cap(what string) {
	r.mu.Lock()
	defer r.mu.Unlock()
	r.exhaustive = false
	for _, c := range r.caps {
		if c == what {
			return
		}
	}
	r.caps = append(r.caps, what)
}

func (r *Report) Assumption(s string) {
	r.mu.Lock()
	defer r.mu.Unlock()
	for _, a := range r.Assume {
		if a == s {
			return
		}
	}
	r.Assume = append(r.Assume, s)
}

const maxAlts = 6

// Violation records v; per signature the smallest counterexample is kept, plus the smallest one of
// a few other configurations: when state leaks between objects, what the search saw in one
// configuration may depend on the order of the search and not reproduce on its own, while the same
// clause is violated reproducibly elsewhere.
func (r *Report) Violation(v *Violation) {
	r.mu.Lock()
	defer r.mu.Unlock()
	if v.Property == "" {
		v.Property = r.Property
	}
	r.sigCount[v.Signature]++
	less := func(a, b *Violation) bool {
		return a.size() < b.size() || (a.size() == b.size() && fmt.Sprint(a.History, a.Choices) < fmt.Sprint(b.History, b.Choices))
	}
	old, ok := r.bySig[v.Signature]
	if !ok {
		r.bySig[v.Signature] = v
		return
	}
	if string(old.Config) == string(v.Config) {
		if less(v, old) {
			r.bySig[v.Signature] = v
		}
		return
	}
	if less(v, old) {
		r.bySig[v.Signature], v = v, old // the displaced one becomes an alternate
	}
	al := r.alts[v.Signature]
	for i, a := range al {
		if string(a.Config) == string(v.Config) {
			if less(v, a) {
				al[i] = v
			}
			return
		}
	}
	if len(al) < maxAlts {
		r.alts[v.Signature] = append(al, v)
	}
}

// Skip counts an occurrence of sig and reports whether a counterexample with a
// history of histLen operations could not improve on the ones already kept (so
// the caller can skip building it).
func (r *Report) Skip(sig string, histLen int) bool {
	r.mu.Lock()
	defer r.mu.Unlock()
	old, ok := r.bySig[sig]
	if ok && len(old.History) <= histLen {
		r.sigCount[sig]++
		return true
	}
	return false
}

// SkipCfg is Skip for searches over many configurations: a counterexample of configuration cfg is
// still wanted (as an alternate) unless that configuration already has one at least as short, or
// the alternates are full.
func (r *Report) SkipCfg(sig string, histLen int, cfg []byte) bool {
	r.mu.Lock()
	defer r.mu.Unlock()
	old, ok := r.bySig[sig]
	if !ok {
		return false
	}
	skip := false
	if string(old.Config) == string(cfg) {
		skip = len(old.History) <= histLen
	} else {
		skip = len(old.History) <= histLen && len(r.alts[sig]) >= maxAlts
		for _, a := range r.alts[sig] {
			if string(a.Config) == string(cfg) {
				skip = len(a.History) <= histLen
			}
		}
	}
	if skip {
		r.sigCount[sig]++
	}
	return skip
}

// HasViolation reports whether a violation with that signature was recorded.
func (r *Report) HasViolation(sig string) bool {
	r.mu.Lock()
	defer r.mu.Unlock()
	_, ok := r.bySig[sig]
	return ok
}

// FirstViolation returns the kept counterexample with the smallest signature, or nil.
func (r *Report) FirstViolation() *Violation {
	r.mu.Lock()
	defer r.mu.Unlock()
	var best *Violation
	for _, v := range r.bySig {
		if best == nil || v.Signature < best.Signature {
			best = v
		}
	}
	return best
}

func (r *Report) ViolationCount() int {
	r.mu.Lock()
	defer r.mu.Unlock()
	return len(r.bySig)
}

func loadFindings(root string) []Finding {
	b, err := os.ReadFile(filepath.Join(root, "known_findings.json"))
	if err != nil {
		return nil
	}
	var ff findingsFile
	if json.Unmarshal(b, &ff) != nil {
		return nil
	}
	return ff.Findings
}

// Finish confirms violations, prints KNOWN-FINDING / VIOLATION lines, writes
// replay artefacts and the evidence file, and returns the exit code.
func (r *Report) Finish() int {
	findings := loadFindings(r.Root)
	var sigs []string
	for s := range r.bySig {
		sigs = append(sigs, s)
	}
	sort.Strings(sigs)
	exit := 0
	nViol := 0
	var knownHits []string
	for _, s := range sigs {
		v := r.bySig[s]
		// believe a violation only if it reproduces 5x from scratch; try the alternates of other
		// configurations before giving up
		cands := append([]*Violation{v}, r.alts[s]...)
		confirmed := false
		why := ""
		for _, c := range cands {
			if c.Confirm == nil {
				v, confirmed = c, true
				break
			}
			okAll := true
			for i := 0; i < 5; i++ {
				ok, msg := c.Confirm()
				if !ok {
					okAll = false
					if why == "" {
						why = msg
					}
					break
				}
			}
			if okAll {
				c.Confirmed = "replayed 5x from scratch on a fresh instance, identical each time"
				v, confirmed = c, true
				break
			}
		}
		if !confirmed {
			r.Broken = fmt.Sprintf("violation %q did not reproduce on replay: %s", s, why)
			continue
		}
		known := false
		for _, f := range findings {
			if f.Status == "open" && f.Property == v.Property && f.Signature == v.Signature {
				fmt.Printf("KNOWN-FINDING: property=%s %s: %s (signature %s, %d occurrences this run)\n", v.Property, f.ID, f.Description, f.Signature, r.sigCount[s])
				knownHits = append(knownHits, f.ID)
				known = true
				break
			}
		}
		if known {
			continue
		}
		nViol++
		exit = 1
		if v.GoTestFn != nil && v.GoTest == "" {
			v.GoTest = v.GoTestFn()
		}
		path := r.writeReplay(v)
		fmt.Printf("VIOLATION property=%s replay=%s\n", v.Property, path)
		fmt.Printf("  signature: %s\n  %s\n  history: %v\n", v.Signature, v.Message, v.History)
	}
	if r.Broken != "" {
		fmt.Printf("HARNESS-ERROR property=%s %s\n", r.Property, r.Broken)
		if exit == 0 {
			exit = 2
		}
	}
	r.writeEvidence(nViol, knownHits)
	return exit
}

func (r *Report) writeReplay(v *Violation) string {
	dir := filepath.Join(r.Root, "replays")
	os.MkdirAll(dir, 0o755)
	b, _ := json.MarshalIndent(v, "", " ")
	h := sha256.Sum256(b)
	path := filepath.Join(dir, fmt.Sprintf("%s-%x.json", v.Property, h[:5]))
	os.WriteFile(path, b, 0o644)
	return path
}

func (r *Report) writeEvidence(nViol int, knownHits []string) {
	cov := map[string]any{}
	for k, v := range r.Cov {
		cov[k] = v
	}
	if len(r.Samples) == 0 {
		r.Samples = []any{"(no sample recorded)"}
	}
	cov["samples"] = r.Samples
	cov["exhaustive"] = r.exhaustive
	if len(r.caps) > 0 {
		cov["caps_hit"] = r.caps
	}
	if len(knownHits) > 0 {
		cov["known_findings_hit"] = knownHits
	}
	// the schema's model_checking keys
	for _, k := range []string{"states", "transitions", "traces_validated_against_impl"} {
		if _, ok := cov[k]; !ok {
			cov[k] = int64(0)
		}
	}
	ev := map[string]any{
		"property_id": r.Property,
		"tier":        r.Tier,
		"seed":        r.Seed,
		"level":       "model_checking",
		"coverage":    cov,
		"assumptions": r.Assume,
		"wall_s":      time.Since(r.start).Seconds(),
		"violations":  nViol,
	}
	if r.Assume == nil {
		ev["assumptions"] = []string{}
	}
	dir := filepath.Join(r.Root, "evidence")
	os.MkdirAll(dir, 0o755)
	b, _ := json.MarshalIndent(ev, "", " ")
	os.WriteFile(filepath.Join(dir, r.Property+".json"), append(b, '\n'), 0o644)
}
