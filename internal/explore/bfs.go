// Package explore is the explicit-state search core: a parallel,
// level-synchronous breadth-first search over states of a real object, the
// deviation-bounded enumeration of environment/scheduler choices, and the
// evidence / violation / known-finding plumbing shared by all checks.
package explore

import (
	"crypto/sha256"
	"runtime"
	"sort"
	"sync"
	"sync/atomic"
	"time"
)

type Key [16]byte

func HashKey(b []byte) Key {
	h := sha256.Sum256(b)
	var k Key
	copy(k[:], h[:16])
	return k
}

type meta struct {
	parent int32
	label  uint32
	depth  uint16
}

// Node is a state in the frontier.
type Node[S any] struct {
	ID    int32
	Depth int
	State S
}

// BFS explores the graph induced by Expand from the initial states.
// Expand is called concurrently from Workers goroutines, each locked to its OS
// thread. It must call emit for every successor (emit deduplicates by key).
type BFS[S any] struct {
	Workers   int
	MaxStates int       // cap; 0 = none
	Deadline  time.Time // zero = none
	KeyOf     func(S) Key

	mu      sync.Mutex
	seen    []map[Key]int32
	seenMu  []sync.Mutex
	metas   []meta
	labels  []string
	labelIx map[string]uint32

	States      int64
	Transitions int64
	MaxDepth    int
	Capped      string // non-empty when a cap stopped the search
	LevelSizes  []int
	stop        atomic.Bool
}

const shards = 64

func (b *BFS[S]) init() {
	if b.Workers <= 0 {
		b.Workers = runtime.NumCPU()
	}
	b.seen = make([]map[Key]int32, shards)
	b.seenMu = make([]sync.Mutex, shards)
	for i := range b.seen {
		b.seen[i] = map[Key]int32{}
	}
	b.labelIx = map[string]uint32{}
}

func (b *BFS[S]) intern(l string) uint32 {
	if ix, ok := b.labelIx[l]; ok {
		return ix
	}
	ix := uint32(len(b.labels))
	b.labels = append(b.labels, l)
	b.labelIx[l] = ix
	return ix
}

// add returns (id, isNew).
func (b *BFS[S]) add(k Key, parent int32, label string, depth int) (int32, bool) {
	sh := int(k[0]) % shards
	b.seenMu[sh].Lock()
	if id, ok := b.seen[sh][k]; ok {
		b.seenMu[sh].Unlock()
		return id, false
	}
	b.mu.Lock()
	id := int32(len(b.metas))
	b.metas = append(b.metas, meta{parent: parent, label: b.intern(label), depth: uint16(depth)})
	b.mu.Unlock()
	b.seen[sh][k] = id
	b.seenMu[sh].Unlock()
	atomic.AddInt64(&b.States, 1)
	return id, true
}

// Lookup returns the id of the state with key k, if it was found.
func (b *BFS[S]) Lookup(k Key) (int32, bool) {
	sh := int(k[0]) % shards
	b.seenMu[sh].Lock()
	defer b.seenMu[sh].Unlock()
	id, ok := b.seen[sh][k]
	return id, ok
}

// Path returns the operation labels leading from an initial state to id.
func (b *BFS[S]) Path(id int32) []string {
	b.mu.Lock()
	defer b.mu.Unlock()
	var rev []string
	for id >= 0 {
		m := b.metas[id]
		if m.parent < 0 {
			break
		}
		rev = append(rev, b.labels[m.label])
		id = m.parent
	}
	for i, j := 0, len(rev)-1; i < j; i, j = i+1, j-1 {
		rev[i], rev[j] = rev[j], rev[i]
	}
	return rev
}

// Stop asks the search to end after the current expansions.
func (b *BFS[S]) Stop() { b.stop.Store(true) }

// Run performs the search. expand receives the node and an emit function.
func (b *BFS[S]) Run(inits []S, expand func(n Node[S], emit func(label string, next S) (int32, bool))) {
	b.init()
	var frontier []Node[S]
	for _, s := range inits {
		if id, isNew := b.add(b.KeyOf(s), -1, "", 0); isNew {
			frontier = append(frontier, Node[S]{ID: id, State: s})
		}
	}
	depth := 0
	for len(frontier) > 0 && !b.stop.Load() {
		b.LevelSizes = append(b.LevelSizes, len(frontier))
		b.MaxDepth = depth
		var idx int64 = -1
		nexts := make([][]Node[S], b.Workers)
		var wg sync.WaitGroup
		for w := 0; w < b.Workers; w++ {
			wg.Add(1)
			go func(w int) {
				defer wg.Done()
				runtime.LockOSThread()
				defer runtime.UnlockOSThread()
				for {
					i := atomic.AddInt64(&idx, 1)
					if i >= int64(len(frontier)) || b.stop.Load() {
						return
					}
					if i%256 == 0 && !b.Deadline.IsZero() && time.Now().After(b.Deadline) {
						b.mu.Lock()
						if b.Capped == "" {
							b.Capped = "deadline"
						}
						b.mu.Unlock()
						b.stop.Store(true)
						return
					}
					n := frontier[i]
					expand(n, func(label string, next S) (int32, bool) {
						atomic.AddInt64(&b.Transitions, 1)
						id, isNew := b.add(b.KeyOf(next), n.ID, label, n.Depth+1)
						if isNew {
							nexts[w] = append(nexts[w], Node[S]{ID: id, Depth: n.Depth + 1, State: next})
						}
						return id, isNew
					})
					var zero S
					frontier[i].State = zero // release memory
				}
			}(w)
		}
		wg.Wait()
		var next []Node[S]
		for _, l := range nexts {
			next = append(next, l...)
		}
		sort.Slice(next, func(i, j int) bool { return next[i].ID < next[j].ID })
		frontier = next
		depth++
		if b.MaxStates > 0 && atomic.LoadInt64(&b.States) > int64(b.MaxStates) && len(frontier) > 0 {
			b.Capped = "max_states"
			break
		}
	}
}
