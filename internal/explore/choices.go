package explore

import (
	"fmt"

	"github.com/weedbox/pokerface/verifshim/vrt"
)

// Deviations enumerates every execution of run with at most bound non-default
// answers (bound < 0: all executions). run must execute the same deterministic
// piece of code each time, consulting only ch for its nondeterminism; it is
// first run with all-default answers, then, for every recorded choice point
// beyond the prescribed prefix and every alternative that keeps the execution
// within the bound, with the prefix extended by that alternative (iterative
// context bounding, Musuvathi & Qadeer). A non-default answer costs 1 unless
// the point is Free (a switch away from a thread that is not enabled).
// maxAlt > 0 limits the alternatives tried per point (reported by the caller
// as a cap). The number of executions is returned.
func Deviations(bound, maxAlt int, run func(ch *vrt.Chooser)) (execs int, capped bool) {
	var rec func(prefix []int)
	rec = func(prefix []int) {
		ch := vrt.NewChooser(prefix)
		run(ch)
		execs++
		if ch.Err != "" {
			panic(fmt.Sprintf("explore: replay divergence: %s", ch.Err))
		}
		if len(ch.Trace) < len(prefix) {
			panic(fmt.Sprintf("explore: replay divergence: prefix of %d choices but execution made only %d", len(prefix), len(ch.Trace)))
		}
		tr := ch.Trace
		cost := 0
		for i := 0; i < len(tr); i++ {
			p := tr[i]
			if i >= len(prefix) {
				c := cost
				if !p.Free {
					c++
				}
				if bound < 0 || c <= bound {
					n := p.N
					if maxAlt > 0 && n > maxAlt {
						n = maxAlt
						capped = true
					}
					for alt := 1; alt < n; alt++ {
						np := make([]int, i+1)
						for j := 0; j < i; j++ {
							np[j] = tr[j].Picked
						}
						np[i] = alt
						rec(np)
					}
				}
			}
			if p.Picked != 0 && !p.Free {
				cost++
			}
		}
	}
	rec(nil)
	return
}

// WithChooser attaches ch to the calling OS thread (which must be locked)
// for the duration of f.
func WithChooser(ch *vrt.Chooser, f func()) {
	detach := vrt.Attach(ch)
	defer detach()
	f()
}
