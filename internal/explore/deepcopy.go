package explore

import (
	"reflect"
	"unsafe"
)

// DeepCopy returns a structurally identical, fully independent copy of v:
// pointers, slices, maps, interfaces and structs are followed, unexported
// fields included (read and written through unsafe), nil-ness and
// empty-but-non-nil-ness of slices and maps preserved. Shared substructure
// and cycles are preserved through a pointer memo.
func DeepCopy[T any](v T) T {
	memo := map[unsafe.Pointer]reflect.Value{}
	src := reflect.ValueOf(&v).Elem()
	dst := reflect.New(src.Type()).Elem()
	deepCopy(dst, src, memo)
	return dst.Interface().(T)
}

func settable(v reflect.Value) reflect.Value {
	if v.CanSet() {
		return v
	}
	return reflect.NewAt(v.Type(), unsafe.Pointer(v.UnsafeAddr())).Elem()
}

func readable(v reflect.Value) reflect.Value {
	if v.CanInterface() {
		return v
	}
	if v.CanAddr() {
		return reflect.NewAt(v.Type(), unsafe.Pointer(v.UnsafeAddr())).Elem()
	}
	return v
}

func deepCopy(dst, src reflect.Value, memo map[unsafe.Pointer]reflect.Value) {
	switch src.Kind() {
	case reflect.Ptr:
		if src.IsNil() {
			return
		}
		p := src.UnsafePointer()
		if d, ok := memo[p]; ok {
			dst.Set(d)
			return
		}
		n := reflect.New(src.Type().Elem())
		memo[p] = n
		deepCopy(n.Elem(), src.Elem(), memo)
		dst.Set(n)
	case reflect.Slice:
		if src.IsNil() {
			return
		}
		n := reflect.MakeSlice(src.Type(), src.Len(), src.Len())
		for i := 0; i < src.Len(); i++ {
			deepCopy(n.Index(i), src.Index(i), memo)
		}
		dst.Set(n)
	case reflect.Array:
		for i := 0; i < src.Len(); i++ {
			deepCopy(dst.Index(i), src.Index(i), memo)
		}
	case reflect.Map:
		if src.IsNil() {
			return
		}
		n := reflect.MakeMapWithSize(src.Type(), src.Len())
		it := src.MapRange()
		for it.Next() {
			tk := reflect.New(src.Type().Key()).Elem()
			tk.Set(it.Key())
			k := reflect.New(src.Type().Key()).Elem()
			deepCopy(k, tk, memo)
			tv := reflect.New(src.Type().Elem()).Elem()
			tv.Set(it.Value())
			e := reflect.New(src.Type().Elem()).Elem()
			deepCopy(e, tv, memo)
			n.SetMapIndex(k, e)
		}
		dst.Set(n)
	case reflect.Interface:
		if src.IsNil() {
			return
		}
		inner := reflect.New(src.Elem().Type()).Elem()
		inner.Set(src.Elem())
		n := reflect.New(inner.Type()).Elem()
		deepCopy(n, inner, memo)
		dst.Set(n)
	case reflect.Struct:
		for i := 0; i < src.NumField(); i++ {
			sf := readable(src.Field(i))
			df := settable(dst.Field(i))
			deepCopy(df, sf, memo)
		}
	default:
		dst.Set(src)
	}
}
