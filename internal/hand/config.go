// Package hand drives the real hold'em hand engine (package pokerface) through
// every operation sequence of small table configurations.
package hand

import (
	"encoding/json"
	"fmt"

	pf "github.com/weedbox/pokerface"
	"github.com/weedbox/pokerface/combination"
)

// Config is one table configuration (a point of the configuration grid).
type Config struct {
	Bankroll    []int64 `json:"bankroll"` // one per seat, seat order
	Ante        int64   `json:"ante"`
	SB          int64   `json:"sb"`
	BB          int64   `json:"bb"`
	DealerBlind int64   `json:"dealer_blind"`
	DeadSB      bool    `json:"dead_sb"` // the seat left of the button holds no "sb" position
	Button      int     `json:"button"`  // seat index of the dealer
	Limit       string  `json:"limit"`   // "no" | "pot"
	Deck        string  `json:"deck"`    // named deck layout, see decks.go
	Hole        int     `json:"hole"`
	Required    int     `json:"required"`
	Table       string  `json:"table"`                     // "standard" | "short"
	Amounts     string  `json:"amounts"`                   // "all" (every integer in range) | "classes" (threshold representatives) | "edges" (edges of the legal range only)
	BurnZero    bool    `json:"burn_count_zero,omitempty"` // options carry BurnCount 0 (e.g. built from a bare literal / JSON without the field)
	ViaSeat     bool    `json:"via_seat_handle,omitempty"` // player actions go through Game.Player(i).X() instead of Game.X()
	Scene       *Scene  `json:"scene,omitempty"`           // what else happens in the process / happened to the game object (see scene.go)
}

func (c *Config) Seats() int { return len(c.Bankroll) }

func (c *Config) String() string {
	b, _ := json.Marshal(c)
	return string(b)
}

func (c *Config) JSON() json.RawMessage {
	b, _ := json.Marshal(c)
	return b
}

// Positions returns the position labels of every seat.
func (c *Config) Positions() [][]string {
	n := c.Seats()
	pos := make([][]string, n)
	for i := range pos {
		pos[i] = []string{}
	}
	if n == 0 {
		return pos
	}
	d := ((c.Button % n) + n) % n
	pos[d] = append(pos[d], "dealer")
	if n == 2 {
		pos[d] = append(pos[d], "sb")
		pos[(d+1)%n] = append(pos[(d+1)%n], "bb")
		return pos
	}
	if !c.DeadSB {
		pos[(d+1)%n] = append(pos[(d+1)%n], "sb")
	}
	pos[(d+2)%n] = append(pos[(d+2)%n], "bb")
	return pos
}

// SeatOf returns the seat holding position p, or -1.
func (c *Config) SeatOf(p string) int {
	for i, ps := range c.Positions() {
		for _, q := range ps {
			if q == p {
				return i
			}
		}
	}
	return -1
}

func (c *Config) rankings() []combination.Combination {
	if c.Table == "short" {
		return combination.CombinationPowerShortDeck
	}
	return combination.CombinationPowerStandard
}

// Options builds fresh engine options for the configuration.
func (c *Config) Options() *pf.GameOptions {
	o := pf.NewStardardGameOptions()
	o.Ante = c.Ante
	o.Blind = pf.BlindSetting{Dealer: c.DealerBlind, SB: c.SB, BB: c.BB}
	o.Limit = c.Limit
	o.HoleCardsCount = c.Hole
	o.RequiredHoleCardsCount = c.Required
	o.CombinationPowers = c.rankings()
	o.Deck = BuildDeck(c)
	if c.BurnZero {
		o.BurnCount = 0
	}
	pos := c.Positions()
	for i, b := range c.Bankroll {
		o.Players = append(o.Players, &pf.PlayerSetting{Bankroll: b, Positions: append([]string{}, pos[i]...)})
	}
	return o
}

// NewStarted returns a fresh real game for the configuration, started (it
// waits at the initial ReadyRequested point).
func (c *Config) NewStarted() (pf.Game, error) {
	if c.Scene != nil {
		return c.Scene.start(c, c.Options())
	}
	g := pf.NewGame(c.Options())
	if err := g.Start(); err != nil {
		return nil, err
	}
	return g, nil
}

func (c *Config) Short() string {
	s := fmt.Sprintf("n=%d br=%v a=%d sb=%d bb=%d db=%d dead=%v btn=%d %s deck=%s hole=%d/%d %s", c.Seats(), c.Bankroll, c.Ante, c.SB, c.BB, c.DealerBlind, c.DeadSB, c.Button, c.Limit, c.Deck, c.Hole, c.Required, c.Table)
	if c.ViaSeat {
		s += " via-seat"
	}
	if c.Scene != nil {
		s += fmt.Sprintf(" scene=%s(n=%d,%d ops)", c.Scene.Kind, c.Scene.Other.Seats(), len(c.Scene.Hist))
	}
	return s
}
