package hand

import (
	"encoding/json"
	"fmt"
	"strings"

	"verif/internal/explore"
)

// Visitors maps a property id to its visitor constructor (filled by init
// functions of the per-property files).
var Visitors = map[string]func() Visitor{}

// ReplayViolation re-executes a recorded counterexample without the explorer:
// the operations are applied to one fresh, uninterrupted real game object and
// the property's oracle is evaluated along the way. It reports whether a
// violation with the same signature shows again.
func ReplayViolation(v *explore.Violation) (bool, string) {
	var cfg Config
	if err := json.Unmarshal(v.Config, &cfg); err != nil {
		return false, "bad config: " + err.Error()
	}
	mk, ok := Visitors[v.Property]
	if !ok {
		return false, "no visitor for " + v.Property
	}
	ops, err := ParseOps(v.History)
	if err != nil {
		return false, err.Error()
	}
	if v.Property == "C06" && v.Signature == "cycle" {
		return replayCycle(&cfg, ops)
	}
	other := ""
	for _, mode := range []string{"replay", "clone"} {
		rep := explore.NewReport(v.Property, "replay")
		run := &Run{Cfg: &cfg, Rep: rep, Vis: mk(), Property: v.Property, Mode: mode}
		run.walk(ops)
		if rep.HasViolation(v.Signature) {
			if mode == "replay" {
				return true, "reproduced on one uninterrupted in-memory game"
			}
			return true, "reproduced only when the game is rebuilt from its state before every call (the table backend's mode of use)"
		}
		if fv := rep.FirstViolation(); fv != nil && other == "" && mode == "replay" {
			other = fv.Signature + ": " + fv.Message
		}
	}
	if other != "" {
		// the same oracle objects to the same history, but names another clause first (typical when state
		// leaks between game objects: what exactly gets overwritten depends on which objects were alive)
		return true, "the recorded history violates the property on every replay, reported there as " + other
	}
	return false, "oracle silent along the recorded history"
}

// walk drives the visitor along one path.
func (r *Run) walk(ops []Op) {
	g0, err := r.Cfg.NewStarted()
	if err != nil {
		return
	}
	gs0 := g0.GetState()
	normalise(gs0)
	x := &Ctx{Run: r, hist: []string{}}
	s := &St{GS: gs0, Mon: r.Vis.InitMon(x, gs0), Hist: []Op{}}
	for i, op := range ops {
		x = &Ctx{Run: r, hist: labels(ops[:i])}
		if x.hist == nil {
			x.hist = []string{}
		}
		r.Vis.OnState(x, s)
		g := x.Fresh(s)
		err, p := Apply(g, op)
		post := g.GetState()
		normalise(post)
		if p != "" {
			r.Vis.OnPanic(x, s, op, p)
			return
		}
		if err != nil {
			r.Vis.OnRefused(x, s, op, err, post)
			return
		}
		mon := r.Vis.OnStep(x, s, op, post)
		s = &St{GS: post, Mon: mon, Hist: append(append([]Op{}, s.Hist...), op)}
	}
	x = &Ctx{Run: r, hist: labels(ops)}
	if x.hist == nil {
		x.hist = []string{}
	}
	r.Vis.OnState(x, s)
	r.flush()
}

func labels(ops []Op) []string {
	out := make([]string, 0, len(ops))
	for _, o := range ops {
		out = append(out, o.Label())
	}
	return out
}

// goTest renders a plain Go test that replays the history without the explorer.
func goTest(c *Config, hist []string) string {
	var b strings.Builder
	fmt.Fprintf(&b, "func TestReplay(t *testing.T) {\n")
	if c.Scene != nil {
		fmt.Fprintf(&b, "\t// SCENE (not rendered below, see hand/scene.go): %s\n", c.Scene.describe())
	}
	fmt.Fprintf(&b, "\topts := pokerface.NewStardardGameOptions()\n")
	fmt.Fprintf(&b, "\topts.Ante = %d\n\topts.Blind = pokerface.BlindSetting{Dealer: %d, SB: %d, BB: %d}\n\topts.Limit = %q\n", c.Ante, c.DealerBlind, c.SB, c.BB, c.Limit)
	fmt.Fprintf(&b, "\topts.HoleCardsCount, opts.RequiredHoleCardsCount = %d, %d\n", c.Hole, c.Required)
	if c.Table == "short" {
		fmt.Fprintf(&b, "\topts.CombinationPowers = combination.CombinationPowerShortDeck\n")
	}
	fmt.Fprintf(&b, "\topts.Deck = %#v // NB: Start() shuffles; pin with g.GetState().Meta.Deck = deck after Start()\n", BuildDeck(c))
	for i, p := range c.Positions() {
		fmt.Fprintf(&b, "\topts.Players = append(opts.Players, &pokerface.PlayerSetting{Bankroll: %d, Positions: %#v})\n", c.Bankroll[i], p)
	}
	fmt.Fprintf(&b, "\tg := pokerface.NewGame(opts)\n\tdeck := append([]string{}, opts.Deck...)\n\tif err := g.Start(); err != nil { t.Fatal(err) }\n\tg.GetState().Meta.Deck = deck\n")
	for _, l := range hist {
		o, err := ParseOp(l)
		if err != nil {
			continue
		}
		call := o.Kind + "()"
		if amountOps[o.Kind] {
			call = fmt.Sprintf("%s(%d)", o.Kind, o.Arg)
		}
		if o.Seat >= 0 {
			fmt.Fprintf(&b, "\tt.Log(g.Player(%d).%s)\n", o.Seat, call)
		} else {
			fmt.Fprintf(&b, "\tt.Log(g.%s)\n", call)
		}
	}
	fmt.Fprintf(&b, "\tg.PrintState()\n}\n")
	return b.String()
}

func jsonUnmarshal(b []byte, v any) error { return json.Unmarshal(b, v) }

func jsonMarshal(v any) ([]byte, error) { return json.Marshal(v) }

// replayCycle confirms an endless play: from the state reached by the recorded history (replayed
// on one genuine game) a bounded breadth-first search over the same alphabet must come back to a
// state it has already been in on the same path (here: any state reachable from itself).
func replayCycle(cfg *Config, hist []Op) (bool, string) {
	type item struct {
		ops []Op
		key string
	}
	g, err := Replay(cfg, hist)
	if err != nil {
		return false, "history does not replay: " + err.Error()
	}
	vis := &c06{}
	start := string(StateJSON(g.GetState()))
	// successors of a state given by its operation list
	succ := func(ops []Op) []item {
		g, err := Replay(cfg, ops)
		if err != nil {
			return nil
		}
		gs := g.GetState()
		if gs.Status.CurrentEvent == "GameClosed" {
			return nil
		}
		x := &Ctx{Run: &Run{Cfg: cfg, Mode: "replay"}, hist: []string{}}
		alphabet := append(Alphabet(cfg, gs), vis.ExtraOps(x, &St{GS: gs})...)
		var out []item
		for _, op := range alphabet {
			g2, err := Replay(cfg, ops)
			if err != nil {
				continue
			}
			if e, p := Apply(g2, op); e != nil || p != "" {
				continue
			}
			out = append(out, item{append(append([]Op{}, ops...), op), string(StateJSON(g2.GetState()))})
		}
		return out
	}
	seen := map[string]bool{}
	frontier := []item{{hist, start}}
	for steps := 0; len(frontier) > 0 && steps < 3000; steps++ {
		it := frontier[0]
		frontier = frontier[1:]
		for _, nx := range succ(it.ops) {
			if nx.key == start {
				return true, fmt.Sprintf("the state after the recorded history is reached again after %d more operations: %v", len(nx.ops)-len(hist), labels(nx.ops[len(hist):]))
			}
			if !seen[nx.key] {
				seen[nx.key] = true
				frontier = append(frontier, nx)
			}
		}
	}
	return false, "no way back to the recorded state found within the search bound"
}
