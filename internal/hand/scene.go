package hand

import (
	"encoding/json"
	"fmt"
	"io"
	"sync/atomic"

	pf "github.com/weedbox/pokerface"
)

// Scene places the hand under test in a process / object lifetime that is not "one fresh game
// object, alone in the process": the library is used across objects and over time, and whatever it
// keeps beyond one hand (package-level buffers and caches, fields of a reused game object) is part
// of the explored system.
//
//	beside       a second game is played in the same process: a fresh game of Other is created,
//	             started and driven along the betting decisions Hist right after the hand under test has been started and
//	             again after every operation it accepts (the two hands overlap in time)
//	reuse-apply  the game object has been used before: it played Hist of configuration Other and is
//	             then given the options of the hand under test (ApplyOptions + Start)
//	same-options the options object the hand is created from was used before: another game was created
//	             from the very same object and played (check / call / pass) to its showdown, as an
//	             application does that keeps its table options around and starts hand after hand from them
//	reuse-load   the same as reuse-apply, but the used object receives the started state of the hand under test
//	             through LoadState (decoded from its JSON)
type Scene struct {
	Kind  string   `json:"kind"`
	Other *Config  `json:"other"`
	Hist  []string `json:"hist"`
}

// how the other hands went (coverage only: the other hand is environment, a refusal there is not judged)
var otherAccepted, otherRefused atomic.Int64
var otherFirstRefusal atomic.Pointer[string]

// besideGame is the game under test of a "beside" scene: Apply runs the other hand after every
// accepted operation.
type besideGame struct {
	pf.Game
	sc *Scene
}

// otherGame builds the scene's other game and drives it along Hist. Refusals are ignored: the other
// hand is environment, not subject.
func (sc *Scene) otherGame() (pf.Game, error) {
	o := sc.Other.Options()
	if sc.Kind == "beside" {
		// the other table arranges its own deck (a slice it got for itself from the library)
		for i, j := 0, len(o.Deck)-1; i < j; i, j = i+1, j-1 {
			o.Deck[i], o.Deck[j] = o.Deck[j], o.Deck[i]
		}
	}
	g := pf.NewGame(o)
	if err := g.Start(); err != nil {
		return nil, fmt.Errorf("scene: other game does not start: %w", err)
	}
	// Hist lists the betting decisions; the table operations in between (ReadyForAll, PayAnte,
	// PayBlinds, Next) are performed as the engine asks for them. The other hand stops where the
	// decisions run out: closed, or waiting for a player in the middle of a betting round.
	rest := sc.Hist
	for step := 0; step < 200; step++ {
		gs := g.GetState()
		var op Op
		switch gs.Status.CurrentEvent {
		case "GameClosed":
			return g, nil
		case "RoundStarted":
			if len(rest) == 0 {
				return g, nil
			}
			o, err := ParseOp(rest[0])
			if err != nil {
				return nil, err
			}
			op, rest = o, rest[1:]
		default:
			ops := Alphabet(sc.Other, gs)
			if len(ops) != 1 {
				return g, nil
			}
			op = ops[0]
		}
		if err, p := Apply(g, op); err != nil || p != "" {
			otherRefused.Add(1)
			if otherFirstRefusal.Load() == nil {
				msg := fmt.Sprintf("%s in %v of (%s): %v %s", op.Label(), sc.Hist, sc.Other.Short(), err, firstLine(p))
				otherFirstRefusal.CompareAndSwap(nil, &msg)
			}
			if gs.Status.CurrentEvent != "RoundStarted" {
				return g, nil
			}
		} else {
			otherAccepted.Add(1)
		}
	}
	return g, nil
}

func (sc *Scene) interfere() {
	sc.otherGame()
}

// start builds the started game under test of configuration c (options o) inside the scene.
func (sc *Scene) start(c *Config, o *pf.GameOptions) (pf.Game, error) {
	switch sc.Kind {
	case "beside":
		g := pf.NewGame(o)
		if err := g.Start(); err != nil {
			return nil, err
		}
		sc.interfere()
		return &besideGame{Game: g, sc: sc}, nil
	case "same-options":
		g0 := pf.NewGame(o)
		if err := g0.Start(); err != nil {
			return nil, err
		}
		for step := 0; step < 300 && g0.GetState().Status.CurrentEvent != "GameClosed"; step++ {
			ops := Alphabet(c, g0.GetState())
			if len(ops) == 0 {
				break
			}
			pick, best := ops[0], 99
			for _, op := range ops {
				if r, ok := map[string]int{"Check": 0, "Call": 1, "Pass": 2, "Fold": 3}[op.Kind]; ok && r < best {
					best, pick = r, op
				}
			}
			if err, p := Apply(g0, pick); err != nil || p != "" {
				otherRefused.Add(1)
				break
			}
			otherAccepted.Add(1)
		}
		g := pf.NewGame(o)
		if err := g.Start(); err != nil {
			return nil, err
		}
		return g, nil
	case "reuse-apply":
		g, err := sc.otherGame()
		if err != nil {
			return nil, err
		}
		if err := g.ApplyOptions(o); err != nil {
			return nil, err
		}
		if err := g.Start(); err != nil {
			return nil, err
		}
		return g, nil
	case "reuse-load":
		g, err := sc.otherGame()
		if err != nil {
			return nil, err
		}
		f := pf.NewGame(o)
		if err := f.Start(); err != nil {
			return nil, err
		}
		b, err := json.Marshal(f.GetState())
		if err != nil {
			return nil, err
		}
		var gs pf.GameState
		if err := json.Unmarshal(b, &gs); err != nil {
			return nil, err
		}
		if err := g.LoadState(&gs); err != nil {
			return nil, err
		}
		return g, nil
	}
	return nil, fmt.Errorf("scene: unknown kind %q", sc.Kind)
}

func (sc *Scene) describe() string {
	switch sc.Kind {
	case "beside":
		return fmt.Sprintf("a second game (%s) is created, started and played %v after Start() and after every accepted operation of this hand", sc.Other.Short(), sc.Hist)
	case "reuse-apply":
		return fmt.Sprintf("the game object first played %v of (%s), then got this hand through ApplyOptions + Start", sc.Hist, sc.Other.Short())
	case "same-options":
		return "the options object was used before: another game was created from it and checked / called down to its showdown"
	case "reuse-load":
		return fmt.Sprintf("the game object first played %v of (%s), then got the started state of this hand through LoadState", sc.Hist, sc.Other.Short())
	}
	return sc.Kind
}

// ---- scene grid -----------------------------------------------------------------

var otherHU = &Config{Bankroll: []int64{9, 9}, SB: 1, BB: 2, Limit: "no", Deck: "f52", Hole: 2, Table: "standard", Amounts: "classes"}
var other3 = &Config{Bankroll: []int64{6, 6, 6}, Ante: 1, SB: 1, BB: 2, Limit: "no", Deck: "f52", Hole: 2, Table: "standard", Amounts: "classes"}

// otherScripts: histories of the other hand; each leaves it at a different kind of point.
var otherScripts = []struct {
	c *Config
	h []string
}{
	// heads-up, raised pot called down to a showdown (closed, settled)
	{otherHU, []string{"Raise(4)", "Call", "Check", "Bet(2)", "Call", "Check", "Check", "Bet(2)", "Call"}},
	// heads-up, left in the middle of a betting round facing a raise (live action list fold/call/raise)
	{otherHU, []string{"Call", "Raise(5)"}},
	// heads-up, left on the flop with nothing bet (live action list check/bet)
	{otherHU, []string{"Call", "Check"}},
	// 3-handed with ante, everybody puts chips in, one folds on the flop, showdown
	{other3, []string{"Call", "Call", "Check", "Bet(2)", "Fold", "Call", "Check", "Pass", "Check", "Check", "Pass", "Check"}},
	// 3-handed, abandoned before the flop
	{other3, []string{"Call"}},
	// 3-handed all-in confrontation with a side pot
	{&Config{Bankroll: []int64{3, 8, 5}, SB: 1, BB: 2, Limit: "no", Deck: "f52", Hole: 2, Table: "standard", Amounts: "classes"},
		[]string{"Allin", "Allin", "Allin"}},
}

// everyOtherState enumerates (breadth first, on the real engine, one representative per distinct
// state) every decision sequence of configuration c: the other hand of a scene stopped at every
// decision point it can reach, and at every way it can close.
func everyOtherState(c *Config) [][]string {
	type item struct{ dec []string }
	seen := map[string]bool{}
	var out [][]string
	frontier := []item{{nil}}
	for len(frontier) > 0 && len(out) < 5000 {
		it := frontier[0]
		frontier = frontier[1:]
		sc := &Scene{Kind: "reuse-apply", Other: c, Hist: it.dec}
		g, err := sc.otherGame()
		if err != nil {
			continue
		}
		gs := g.GetState()
		k := string(StateJSON(gs))
		if seen[k] {
			continue
		}
		seen[k] = true
		out = append(out, it.dec)
		if gs.Status.CurrentEvent != "RoundStarted" {
			continue
		}
		for _, op := range Alphabet(c, gs) {
			frontier = append(frontier, item{append(append([]string{}, it.dec...), op.Label())})
		}
	}
	return out
}

// SceneGrid: small hands under test, each placed in every scene.
func SceneGrid(tier string) []*Config { return sceneGrid(tier, tier == "thorough") }

// sceneGrid: everyOther adds, for the two smallest subjects, every reachable state of two small
// other hands as prelude (about 1400 more configurations).
func sceneGrid(tier string, everyOther bool) []*Config {
	subjects := []*Config{
		cfg([]int64{3, 5}, 0, 1, 2, 0, false, 0, "no", "f52", 2, 0, "standard", "classes"),
		cfg([]int64{2, 4, 3}, 1, 1, 2, 0, false, 1, "no", "f52", 2, 0, "standard", "classes"),
	}
	if tier == "thorough" {
		subjects = append(subjects,
			cfg([]int64{4, 4}, 0, 1, 2, 0, false, 1, "pot", "f52", 4, 2, "standard", "all"),
			cfg([]int64{3, 2, 4}, 0, 1, 2, 0, true, 2, "no", "f52", 2, 0, "standard", "classes"),
			cfg([]int64{2, 3, 2, 3}, 0, 1, 2, 0, false, 0, "no", "f52", 2, 0, "standard", "classes"))
	}
	var out []*Config
	if everyOther {
		// every reachable state of two tiny other hands (heads-up; 3-handed with an ante) as what the
		// process / the game object has been through, for the two smallest subjects
		for _, oc := range []*Config{
			{Bankroll: []int64{4, 5}, SB: 1, BB: 2, Limit: "no", Deck: "f52", Hole: 2, Table: "standard", Amounts: "edges"},
			{Bankroll: []int64{4, 3, 5}, Ante: 1, SB: 1, BB: 2, Limit: "no", Deck: "f52", Hole: 2, Table: "standard", Amounts: "edges"},
		} {
			for _, dec := range everyOtherState(oc) {
				for _, s := range subjects[:2] {
					for _, kind := range []string{"beside", "reuse-apply", "reuse-load"} {
						c := *s
						c.Scene = &Scene{Kind: kind, Other: oc, Hist: dec}
						out = append(out, &c)
					}
				}
			}
		}
	}
	for _, s := range subjects {
		{
			c := *s
			c.Scene = &Scene{Kind: "same-options", Other: s}
			out = append(out, &c)
		}
		for _, kind := range []string{"beside", "reuse-apply", "reuse-load"} {
			for _, sc := range otherScripts {
				c := *s
				c.Scene = &Scene{Kind: kind, Other: sc.c, Hist: sc.h}
				out = append(out, &c)
			}
		}
	}
	return out
}

// SceneSelfTest prints how each other-hand script goes (developer aid).
func SceneSelfTest(w io.Writer) {
	for _, sc := range otherScripts {
		s := &Scene{Kind: "beside", Other: sc.c, Hist: sc.h}
		a0, r0 := otherAccepted.Load(), otherRefused.Load()
		g, err := s.otherGame()
		if err != nil {
			fmt.Fprintln(w, "ERR", err)
			continue
		}
		gs := g.GetState()
		cur := gs.Status.CurrentPlayer
		var aa []string
		if cur >= 0 && cur < len(gs.Players) {
			aa = gs.Players[cur].AllowedActions
		}
		fmt.Fprintf(w, "%v of (%s): accepted=%d refused=%d ends at %s round=%s current=%d offered=%v\n", sc.h, sc.c.Short(), otherAccepted.Load()-a0, otherRefused.Load()-r0, gs.Status.CurrentEvent, gs.Status.Round, cur, aa)
	}
	if m := otherFirstRefusal.Load(); m != nil {
		fmt.Fprintln(w, "first refusal:", *m)
	}
}
