package hand

import (
	"bytes"
	"encoding/json"
	"fmt"
	"reflect"
	"runtime"
	"sync"

	pf "github.com/weedbox/pokerface"
	"github.com/weedbox/pokerface/table"
	"github.com/weedbox/pokerface/verifshim/vrt"

	"verif/internal/explore"
)

// C07: the JSON state is complete at every wait point. The search runs over
// the EXTENDED transition system: operations plus a "Reload" transition that
// rebuilds the game from its JSON alone. The in-memory side of every
// comparison is a genuine, uninterrupted object obtained by replaying the
// history from Start() (no state cloning anywhere in this check).

type c07node struct {
	hist []Op
	key  []byte // StateJSON: JSON + unserialised pot levels
}

func normJSON(gs *pf.GameState) []byte {
	u, c, id := gs.UpdatedAt, gs.CreatedAt, gs.GameID
	gs.UpdatedAt, gs.CreatedAt, gs.GameID = 0, 0, ""
	b, err := json.Marshal(gs)
	gs.UpdatedAt, gs.CreatedAt, gs.GameID = u, c, id
	if err != nil {
		panic(err)
	}
	return b
}

func fromJSON(b []byte) *pf.GameState {
	var gs pf.GameState
	if err := json.Unmarshal(b, &gs); err != nil {
		panic(err)
	}
	return &gs
}

func backendCall(nb *table.NativeBackend, gs *pf.GameState, o Op) (out *pf.GameState, err error, panicked string) {
	defer func() {
		if r := recover(); r != nil {
			panicked = fmt.Sprint(r)
		}
	}()
	switch o.Kind {
	case "ReadyForAll":
		out, err = nb.ReadyForAll(gs)
	case "PayAnte":
		out, err = nb.PayAnte(gs)
	case "PayBlinds":
		out, err = nb.PayBlinds(gs)
	case "Next":
		out, err = nb.Next(gs)
	case "Pass":
		out, err = nb.Pass(gs)
	case "Fold":
		out, err = nb.Fold(gs)
	case "Check":
		out, err = nb.Check(gs)
	case "Call":
		out, err = nb.Call(gs)
	case "Allin":
		out, err = nb.Allin(gs)
	case "Bet":
		out, err = nb.Bet(gs, o.Arg)
	case "Raise":
		out, err = nb.Raise(gs, o.Arg)
	case "Pay":
		out, err = nb.Pay(gs, o.Arg)
	default:
		panic("backend: unknown op " + o.Kind)
	}
	return
}

type stepObs struct {
	errA, errB, errC error
	pA, pB, pC       string
	jA, jB, jC       []byte
	keyA             []byte
	inputChanged     string
	orders           int
	orderDiff        string
}

// mapDev is the deviation bound for map iteration orders inside one operation (set per tier).
var mapDev = 1

// c07Step performs op three ways from the state reached by hist.
func c07Step(cfg *Config, hist []Op, op Op) (*stepObs, error) {
	o := &stepObs{}
	// (a) the genuine in-memory game
	ga, err := Replay(cfg, hist)
	if err != nil {
		return nil, err
	}
	j0 := normJSON(ga.GetState())
	o.errA, o.pA = Apply(ga, op)
	o.jA = normJSON(ga.GetState())
	o.keyA = StateJSON(ga.GetState())
	// (b) a game rebuilt from the JSON alone
	gb := pf.NewGameFromState(fromJSON(j0))
	o.errB, o.pB = Apply(gb, op)
	o.jB = normJSON(gb.GetState())
	// (b') the same operation under every map iteration order with at most mapDev non-default
	// choices: "the same deck and the same operations always lead to the same state"
	if mapDev > 0 {
		explore.Deviations(mapDev, 0, func(ch *vrt.Chooser) {
			gd := pf.NewGameFromState(fromJSON(j0))
			var errD error
			var pD string
			explore.WithChooser(ch, func() { errD, pD = Apply(gd, op) })
			o.orders++
			if (errD == nil) != (o.errB == nil) || pD != o.pB || !bytes.Equal(normJSON(gd.GetState()), o.jB) {
				if o.orderDiff == "" {
					o.orderDiff = fmt.Sprintf("map order choices %v: %s", ch.Choices(), firstDiff(normJSON(gd.GetState()), o.jB))
				}
			}
		})
	}
	// (c) the stateless table backend
	in := fromJSON(j0)
	keep := explore.DeepCopy(in)
	nb := table.NewNativeBackend()
	out, errC, pC := backendCall(nb, in, op)
	o.errC, o.pC = errC, pC
	if out != nil {
		o.jC = normJSON(out)
	}
	if !bytes.Equal(normJSON(in), j0) {
		o.inputChanged = "JSON of the state handed to the backend changed"
	} else if !reflect.DeepEqual(in, keep) {
		o.inputChanged = "state handed to the backend changed (not visible in its JSON)"
	}
	return o, nil
}

func firstDiff(a, b []byte) string {
	n := len(a)
	if len(b) < n {
		n = len(b)
	}
	i := 0
	for i < n && a[i] == b[i] {
		i++
	}
	lo := i - 60
	if lo < 0 {
		lo = 0
	}
	cut := func(x []byte) string {
		hi := i + 60
		if hi > len(x) {
			hi = len(x)
		}
		if lo > len(x) {
			return ""
		}
		return string(x[lo:hi])
	}
	return fmt.Sprintf("...%s... vs ...%s...", cut(a), cut(b))
}

// c07Judge turns the observation into (signature, message) pairs.
func c07Judge(op Op, o *stepObs) [][2]string {
	var out [][2]string
	add := func(sig, msg string) { out = append(out, [2]string{sig, msg}) }
	if o.pA != "" || o.pB != "" || o.pC != "" {
		if (o.pA != "") != (o.pB != "") || (o.pA != "") != (o.pC != "") {
			add("panic-differs:"+op.Kind, fmt.Sprintf("%s panics in only some of in-memory / reloaded / backend: %q %q %q", op.Label(), firstLine(o.pA), firstLine(o.pB), o.pC))
		}
		return out
	}
	if (o.errA == nil) != (o.errB == nil) {
		add("reload-diverges:"+op.Kind, fmt.Sprintf("%s: in-memory game answers %v, the game rebuilt from JSON answers %v", op.Label(), o.errA, o.errB))
	} else if !bytes.Equal(o.jA, o.jB) {
		add("reload-diverges:"+op.Kind, fmt.Sprintf("%s leads to different states in memory and after a reload: %s", op.Label(), firstDiff(o.jA, o.jB)))
	}
	if (o.errA == nil) != (o.errC == nil) {
		add("backend-diverges:"+op.Kind, fmt.Sprintf("%s: in-memory game answers %v, the backend answers %v", op.Label(), o.errA, o.errC))
	} else if o.errA == nil && !bytes.Equal(o.jA, o.jC) {
		add("backend-diverges:"+op.Kind, fmt.Sprintf("%s: backend result differs from the in-memory game: %s", op.Label(), firstDiff(o.jA, o.jC)))
	}
	if o.inputChanged != "" {
		add("backend-mutates-input:"+op.Kind, op.Label()+": "+o.inputChanged)
	}
	if o.orderDiff != "" {
		add("depends-on-map-order:"+op.Kind, op.Label()+": the resulting state depends on the iteration order of a Go map (unspecified by the language): "+o.orderDiff)
	}
	return out
}

type c07run struct {
	cfg  *Config
	rep  *explore.Report
	jdet sync.Map // JSON -> op label -> result digest
}

func (r *c07run) violate(hist []Op, op *Op, sig, msg string) {
	h := labels(hist)
	if op != nil {
		h = append(h, op.Label())
	}
	if r.rep.Skip(sig, len(h)) {
		return
	}
	v := &explore.Violation{Property: "C07", Engine: "hand-c07", Signature: sig, Message: msg, Config: r.cfg.JSON(), History: h}
	v.Confirm = func() (bool, string) { return ReplayC07(v) }
	cfg := r.cfg
	v.GoTestFn = func() string { return goTest(cfg, h) }
	r.rep.Violation(v)
}

func (r *c07run) explore(maxStates int) {
	cfg := r.cfg
	g0, err := cfg.NewStarted()
	if err != nil {
		return
	}
	// (iii) CreateGame == in-memory Start()
	nb := table.NewNativeBackend()
	if cs, err := nb.CreateGame(cfg.Options()); err != nil {
		r.violate(nil, nil, "create-game-differs", "backend CreateGame fails where Start() succeeds: "+err.Error())
	} else if !bytes.Equal(normJSON(cs), normJSON(g0.GetState())) {
		r.violate(nil, nil, "create-game-differs", "backend CreateGame differs from in-memory Start(): "+firstDiff(normJSON(cs), normJSON(g0.GetState())))
	}
	b := &explore.BFS[*c07node]{Workers: 1, MaxStates: maxStates, KeyOf: func(n *c07node) explore.Key { return explore.HashKey(n.key) }}
	init := &c07node{hist: []Op{}, key: StateJSON(g0.GetState())}
	var reloads, jdetChecks, replays, orderRuns int64
	b.Run([]*c07node{init}, func(nd explore.Node[*c07node], emit func(string, *c07node) (int32, bool)) {
		n := nd.State
		g, err := Replay(cfg, n.hist)
		replays++
		if err != nil {
			r.rep.Broken = "C07: replay of an explored history failed: " + err.Error()
			return
		}
		gs := g.GetState()
		// (iv) same deck, same operations => same state
		if !bytes.Equal(StateJSON(gs), n.key) {
			r.violate(n.hist, nil, "nondeterministic", "replaying the same operations on the same deck gives a different state: "+firstDiff(StateJSON(gs), n.key))
			return
		}
		j0 := string(normJSON(gs))
		// the reload transition
		if len(n.hist) == 0 || n.hist[len(n.hist)-1].Kind != "Reload" {
			gr := ReloadJSON(g)
			reloads++
			if !bytes.Equal(normJSON(gr.GetState()), []byte(j0)) {
				r.violate(n.hist, &Op{Kind: "Reload", Seat: -1}, "json-roundtrip", "marshal/unmarshal/marshal of the state is not the identity")
			}
			emit("Reload", &c07node{hist: append(append([]Op{}, n.hist...), Op{Kind: "Reload", Seat: -1}), key: StateJSON(gr.GetState())})
		}
		if gs.Status.CurrentEvent == "GameClosed" {
			return
		}
		for _, op := range Alphabet(cfg, gs) {
			op := op
			o, err := c07Step(cfg, n.hist, op)
			replays++
			if err != nil {
				r.rep.Broken = "C07: " + err.Error()
				return
			}
			orderRuns += int64(o.orders)
			bad := false
			for _, sm := range c07Judge(op, o) {
				bad = true
				r.violate(n.hist, &op, sm[0], sm[1])
			}
			// (i) J-determinism across extended states with the same JSON
			digest := fmt.Sprintf("%v|%x", o.errA == nil, explore.HashKey(o.jA))
			m, _ := r.jdet.LoadOrStore(j0, &sync.Map{})
			if prev, loaded := m.(*sync.Map).LoadOrStore(op.Label(), digest); loaded {
				jdetChecks++
				if prev.(string) != digest {
					bad = true
					r.violate(n.hist, &op, "same-json-different-future:"+op.Kind, op.Label()+": two states with identical JSON (reached with and without restarts) react differently")
				}
			}
			if bad || o.errA != nil || o.pA != "" {
				continue
			}
			emit(op.Label(), &c07node{hist: append(append([]Op{}, n.hist...), op), key: o.keyA})
		}
	})
	r.rep.Add("states", b.States)
	r.rep.Add("transitions", b.Transitions)
	r.rep.Add("traces_validated_against_impl", replays)
	r.rep.Add("genuine_replays", replays)
	r.rep.Add("reload_transitions", reloads)
	r.rep.Add("same_json_comparisons", jdetChecks)
	r.rep.Add("map_order_executions", orderRuns)
	r.rep.Add("configurations", 1)
	r.rep.Max("max_depth", int64(b.MaxDepth))
	if b.Capped != "" {
		r.rep.Cap(fmt.Sprintf("%s in config %s (states=%d)", b.Capped, cfg.Short(), b.States))
	}
}

// ReplayC07 re-runs the three-way comparison for the last operation of the history.
func ReplayC07(v *explore.Violation) (bool, string) {
	var cfg Config
	if err := json.Unmarshal(v.Config, &cfg); err != nil {
		return false, err.Error()
	}
	ops, err := ParseOps(v.History)
	if err != nil {
		return false, err.Error()
	}
	switch v.Signature {
	case "create-game-differs":
		g0, err := cfg.NewStarted()
		if err != nil {
			return false, err.Error()
		}
		cs, err := table.NewNativeBackend().CreateGame(cfg.Options())
		if err != nil || !bytes.Equal(normJSON(cs), normJSON(g0.GetState())) {
			return true, "CreateGame differs from Start()"
		}
		return false, "CreateGame equals Start()"
	case "nondeterministic":
		a, e1 := Replay(&cfg, ops)
		b, e2 := Replay(&cfg, ops)
		if e1 != nil || e2 != nil {
			return false, "history does not replay"
		}
		if !bytes.Equal(StateJSON(a.GetState()), StateJSON(b.GetState())) {
			return true, "two replays differ"
		}
		return false, "two replays agree"
	}
	if len(ops) == 0 {
		return false, "empty history"
	}
	last := ops[len(ops)-1]
	hist := ops[:len(ops)-1]
	if last.Kind == "Reload" {
		g, err := Replay(&cfg, hist)
		if err != nil {
			return false, err.Error()
		}
		if !bytes.Equal(normJSON(ReloadJSON(g).GetState()), normJSON(g.GetState())) {
			return true, "JSON round trip is not the identity"
		}
		return false, "round trip ok"
	}
	o, err := c07Step(&cfg, hist, last)
	if err != nil {
		return false, err.Error()
	}
	for _, sm := range c07Judge(last, o) {
		if sm[0] == v.Signature {
			return true, sm[1]
		}
	}
	if len(v.Signature) > 26 && v.Signature[:26] == "same-json-different-future" {
		// compare with the same operation from the reload of the same state
		hist2 := append(append([]Op{}, hist...), Op{Kind: "Reload", Seat: -1})
		o2, err := c07Step(&cfg, hist2, last)
		if err == nil && ((o.errA == nil) != (o2.errA == nil) || !bytes.Equal(o.jA, o2.jA)) {
			return true, "the state and its reload react differently"
		}
	}
	return false, "in-memory, reloaded and backend games agree"
}

// C07Grid: small configurations (every transition costs a full replay).
func C07Grid(tier string) []*Config {
	var out []*Config
	add := func(c *Config) { out = append(out, c) }
	for _, br := range vectors(2, []int64{1, 3, 5}) {
		add(cfg(br, 0, 1, 2, 0, false, 0, "no", "f52", 2, 0, "standard", "all"))
		add(cfg(br, 1, 1, 2, 0, false, 1, "no", "sv:1,1", 2, 0, "standard", "all"))
	}
	for _, br := range vectors(3, []int64{2, 5}) {
		add(cfg(br, 0, 1, 2, 0, false, 0, "no", "sv:1,1,0", 2, 0, "standard", "classes"))
		add(cfg(br, 1, 1, 2, 0, true, 1, "no", "f52", 2, 0, "standard", "classes"))
	}
	add(cfg([]int64{4, 6, 5}, 0, 1, 2, 3, false, 2, "pot", "r52", 2, 0, "standard", "classes"))
	add(cfg([]int64{3, 4}, 0, 1, 2, 0, false, 0, "no", "f52", 2, 2, "standard", "classes"))
	add(cfg([]int64{3, 2, 4}, 0, 1, 2, 0, false, 1, "no", "t52", 2, 2, "standard", "classes"))
	add(cfg([]int64{4, 6}, 0, 1, 2, 0, false, 0, "no", "f36", 2, 0, "short", "classes"))
	add(cfg([]int64{4, 3, 5}, 0, 1, 2, 0, false, 0, "no", "sv:2,0,2", 4, 2, "standard", "classes"))
	add(cfg([]int64{3, 3, 3, 3}, 0, 1, 2, 0, false, 0, "no", "sv:1,0,1,1", 2, 0, "standard", "classes"))
	if tier == "thorough" {
		for _, br := range vectors(3, []int64{3, 6, 8}) {
			add(cfg(br, 1, 1, 2, 0, false, 0, "no", "sv:2,2,1", 2, 0, "standard", "all"))
		}
		for _, br := range vectors(4, []int64{2, 5}) {
			add(cfg(br, 0, 1, 2, 0, false, 1, "no", "sv:1,0,1,2", 2, 0, "standard", "classes"))
		}
		add(cfg([]int64{3, 5, 2, 6, 4}, 1, 1, 2, 0, false, 3, "no", "sv:2,0,2,1,1", 2, 0, "standard", "classes"))
	}
	return out
}

// RunC07 explores the extended (operations + reload) system of every configuration.
func RunC07(rep *explore.Report, tier string) {
	rep.Set("rule", "extended transition system (every operation of the alphabet + a Reload transition that rebuilds the game from its JSON) of every configuration; every transition performed three ways - on the genuine uninterrupted in-memory game (replayed from Start), on a game rebuilt from the JSON, and through table.NativeBackend - and compared; input immutability of the backend; CreateGame vs Start; determinism of replays and independence of the result from map iteration order (bounded deviations); states with equal JSON must have equal futures; distinct_nontrivial = comparisons between extended states sharing a JSON document")
	cfgs := C07Grid(tier)
	mapDev = 1
	if tier == "thorough" {
		mapDev = 2
	}
	rep.Set("map_order_deviation_bound_per_operation", int64(mapDev))
	// scenes first, alone in the process (see scene.go)
	before := rep.ViolationCount()
	func() {
		runtime.LockOSThread()
		defer runtime.UnlockOSThread()
		// (the three-way comparison with map-order deviations is two orders of magnitude dearer per state than
		// the other visitors: C07 takes the scripted scenes of the tier, not the every-state preludes)
		for _, c := range sceneGrid(tier, false) {
			(&c07run{cfg: c, rep: rep}).explore(400000)
			rep.Add("scene_configurations", 1)
		}
	}()
	sceneCoverage(rep)
	if rep.ViolationCount() > before {
		rep.Cap("a scene configuration violated the property: the rest of the check was skipped")
		return
	}
	ch := make(chan *Config)
	var wg sync.WaitGroup
	for w := 0; w < numCPU(); w++ {
		wg.Add(1)
		go func() {
			defer wg.Done()
			runtime.LockOSThread() // map-order choosers are attached per OS thread
			defer runtime.UnlockOSThread()
			for c := range ch {
				(&c07run{cfg: c, rep: rep}).explore(400000)
			}
		}()
	}
	for _, c := range cfgs {
		ch <- c
	}
	close(ch)
	wg.Wait()
	rep.Sample(map[string]any{"configuration": cfgs[0], "history": []string{"ReadyForAll", "Reload", "PayBlinds", "ReadyForAll", "Reload", "Call"}})
	rep.Set("distinct_nontrivial", rep.Get("same_json_comparisons"))
	rep.Set("evaluations", rep.Get("transitions"))
	rep.Assumption("ids and timestamps (game_id, created_at, updated_at) are excluded from comparisons, as the property says 'up to timestamps'")
}
