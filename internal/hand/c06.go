package hand

import (
	"bytes"
	"fmt"

	pf "github.com/weedbox/pokerface"

	"verif/internal/explore"
)

func init() { Visitors["C06"] = func() Visitor { return &c06{} } }

// c06: the hand always says what it waits for, that step succeeds, streets
// run in order, the hand terminates (acyclic finite graph, all maximal paths
// end closed) and a closed hand accepts nothing.
type c06 struct{ Base }

var roundIdx = map[string]int{"": 0, "preflop": 1, "flop": 2, "turn": 3, "river": 4}

func (v *c06) OnState(x *Ctx, s *St) {
	gs := s.GS
	ev := gs.Status.CurrentEvent
	if _, ok := WaitPoints[ev]; !ok {
		x.Violate("not-a-wait-point:"+ev, "the hand came to rest at an event that is not one of its wait points", "ReadyRequested|AnteRequested|BlindsRequested|RoundStarted|RoundClosed|GameClosed", ev)
		return
	}
	if (gs.Result != nil) != (ev == "GameClosed") {
		x.Violate("result-iff-closed", "a settlement result must be present exactly when the hand is closed", fmt.Sprint(ev == "GameClosed"), fmt.Sprint(gs.Result != nil))
	}
	if ev == "RoundStarted" {
		cur := gs.Status.CurrentPlayer
		if cur < 0 || cur >= len(gs.Players) || len(gs.Players[cur].AllowedActions) == 0 {
			x.Violate("nobody-to-act", "betting round is waiting for an action but nobody is offered one", "an offered action", "none")
		}
	}
	if ev != "RoundStarted" {
		for _, p := range gs.Players {
			if len(p.AllowedActions) > 0 {
				x.Violate("two-things-awaited:"+ev, fmt.Sprintf("the hand waits at %s (for %s) but seat %d is offered %v at the same time", ev, WaitPoints[ev], p.Idx, p.AllowedActions), "no player actions offered", fmt.Sprint(p.AllowedActions))
				break
			}
		}
	}
	if ev == "GameClosed" {
		v.closedAcceptsNothing(x, s)
	}
}

// ExtraOps: "whatever the players choose" - outside a betting round the
// players can still try their actions; any that the engine accepts is part of
// the play graph (and a source of endless plays if it does not advance the hand).
func (v *c06) ExtraOps(x *Ctx, s *St) []Op {
	ev := s.GS.Status.CurrentEvent
	if ev == "GameClosed" {
		return nil
	}
	if ev == "RoundStarted" {
		return []Op{{Kind: "ReadyForAll", Seat: -1}, {Kind: "PayAnte", Seat: -1}, {Kind: "PayBlinds", Seat: -1}, {Kind: "Next", Seat: -1}}
	}
	ops := []Op{{Kind: "Pass", Seat: -1}, {Kind: "Check", Seat: -1}, {Kind: "Fold", Seat: -1}, {Kind: "Call", Seat: -1}, {Kind: "Allin", Seat: -1}, {Kind: "Bet", Arg: 1, Seat: -1}, {Kind: "Raise", Arg: 2, Seat: -1}}
	// ... and the driver can call the table operations the hand is not waiting for
	for _, t := range []string{"ReadyForAll", "PayAnte", "PayBlinds", "Next"} {
		if t != WaitPoints[ev] {
			ops = append(ops, Op{Kind: t, Seat: -1})
		}
	}
	return ops
}

func (v *c06) closedAcceptsNothing(x *Ctx, s *St) {
	before := StateJSON(s.GS)
	g := x.Fresh(s)
	var ops []Op
	for _, t := range []string{"ReadyForAll", "PayAnte", "PayBlinds", "Next", "Pass", "Fold", "Check", "Call", "Allin"} {
		ops = append(ops, Op{Kind: t, Seat: -1})
	}
	for _, a := range []int64{1, 2, 1 << 40} {
		ops = append(ops, Op{Kind: "Bet", Arg: a, Seat: -1}, Op{Kind: "Raise", Arg: a, Seat: -1}, Op{Kind: "Pay", Arg: a, Seat: -1})
	}
	for seat := range s.GS.Players {
		for _, t := range []string{"Pass", "Fold", "Check", "Call", "Allin", "PayAnte", "PayBlinds"} {
			ops = append(ops, Op{Kind: t, Seat: seat})
		}
		ops = append(ops, Op{Kind: "Bet", Arg: 1, Seat: seat}, Op{Kind: "Raise", Arg: 3, Seat: seat})
	}
	for _, op := range ops {
		_, p := Apply(g, op)
		x.Run.Count("closed_hand_probes", 1)
		if p != "" {
			x.Report("closed-hand-op-panics:"+op.Kind, op.Label()+" on a closed hand panics", "refusal", "panic", op)
			g = x.Fresh(s)
			continue
		}
		if !bytes.Equal(before, StateJSON(g.GetState())) {
			x.Report("closed-hand-accepts:"+op.Kind, op.Label()+" changes a closed hand", "state unchanged", "state changed", op)
			g = x.Fresh(s)
		}
	}
}

func legalAmount(pre *pf.GameState, op Op) bool {
	cur := pre.Status.CurrentPlayer
	if cur < 0 || cur >= len(pre.Players) {
		return false
	}
	S := pre.Players[cur].InitialStackSize
	switch op.Kind {
	case "Bet":
		return op.Arg >= pre.Status.MiniBet && op.Arg > 0 && op.Arg <= S
	case "Raise":
		return op.Arg >= satAdd(pre.Status.CurrentWager, pre.Status.PreviousRaiseSize) && op.Arg > pre.Status.CurrentWager && op.Arg <= S
	}
	return true
}

func (v *c06) OnRefused(x *Ctx, s *St, op Op, err error, post *pf.GameState) {
	if amountOps[op.Kind] && !legalAmount(s.GS, op) {
		return // refusing an illegal size is fine
	}
	x.Report("expected-step-refused:"+op.Kind, fmt.Sprintf("the step the hand is waiting for (%s at %s) is refused", op.Label(), s.GS.Status.CurrentEvent), "nil", err.Error(), op)
}

func (v *c06) OnPanic(x *Ctx, s *St, op Op, p string) {
	x.Report("expected-step-panics:"+op.Kind, fmt.Sprintf("%s at %s panics", op.Label(), s.GS.Status.CurrentEvent), "nil", firstLine(p), op)
}

func firstLine(s string) string {
	for i := 0; i < len(s); i++ {
		if s[i] == '\n' {
			return s[:i]
		}
	}
	return s
}

func (v *c06) OnStep(x *Ctx, s *St, op Op, post *pf.GameState) string {
	if exp, ok := WaitPoints[s.GS.Status.CurrentEvent]; ok && s.GS.Status.CurrentEvent != "RoundStarted" && op.Kind != exp {
		x.Violate("unawaited-step-accepted:"+op.Kind, fmt.Sprintf("the hand waits at %s for %s but accepts %s: it is not waiting for a single thing", s.GS.Status.CurrentEvent, exp, op.Label()), "refused", "accepted", op)
		return ""
	}
	if s.GS.Status.CurrentEvent == "RoundStarted" && !actionKinds[op.Kind] {
		x.Violate("unawaited-step-accepted:"+op.Kind, fmt.Sprintf("the hand waits for the player to act but accepts %s", op.Label()), "refused", "accepted", op)
		return ""
	}
	a, b := roundIdx[s.GS.Status.Round], roundIdx[post.Status.Round]
	if _, ok := roundIdx[post.Status.Round]; !ok || !(b == a || b == a+1) {
		x.Violate("street-order", "streets must run preflop, flop, turn, river", s.GS.Status.Round+" -> same or next", post.Status.Round, op)
	}
	return ""
}

func (v *c06) OnDeadEnd(x *Ctx, s *St) {
	x.Violate("stuck", "a hand that is not closed accepts none of the steps it could be waiting for", "at least one accepted step", "none at "+s.GS.Status.CurrentEvent)
}

// graphCheck: the explored transition graph must be acyclic; the longest path
// is reported and must stay within a bound linear in seats x chips.
func (v *c06) graphCheck(r *Run) {
	n := int(r.States())
	indeg := make([]int32, n)
	head := make([]int32, n+1)
	for _, s := range r.EdgeSrc {
		head[s+1]++
	}
	for i := 0; i < n; i++ {
		head[i+1] += head[i]
	}
	adj := make([]int32, len(r.EdgeSrc))
	fill := make([]int32, n)
	for i, s := range r.EdgeSrc {
		adj[head[s]+fill[s]] = r.EdgeDst[i]
		fill[s]++
		indeg[r.EdgeDst[i]]++
	}
	long := make([]int32, n)
	var queue []int32
	for i := 0; i < n; i++ {
		if indeg[i] == 0 {
			queue = append(queue, int32(i))
		}
	}
	done := 0
	var maxLen int32
	for len(queue) > 0 {
		u := queue[0]
		queue = queue[1:]
		done++
		if long[u] > maxLen {
			maxLen = long[u]
		}
		for _, w := range adj[head[u]:head[u+1]] {
			if long[u]+1 > long[w] {
				long[w] = long[u] + 1
			}
			indeg[w]--
			if indeg[w] == 0 {
				queue = append(queue, w)
			}
		}
	}
	r.Rep.Max("longest_path", int64(maxLen))
	r.Rep.Add("graph_edges", int64(len(r.EdgeSrc)))
	if done != n {
		// the nodes left over lie on or behind a cycle; walking backwards inside that set must
		// revisit a node, and that node is on a cycle
		left := func(i int32) bool { return indeg[i] > 0 }
		pred := map[int32]int32{}
		for i, src := range r.EdgeSrc {
			dst := r.EdgeDst[i]
			if left(src) && left(dst) {
				if _, ok := pred[dst]; !ok {
					pred[dst] = src
				}
			}
		}
		var start int32 = -1
		for i := 0; i < n; i++ {
			if left(int32(i)) {
				start = int32(i)
				break
			}
		}
		seen := map[int32]bool{}
		cur := start
		for cur >= 0 && !seen[cur] {
			seen[cur] = true
			p, ok := pred[cur]
			if !ok {
				break
			}
			cur = p
		}
		if cur >= 0 {
			x := &Ctx{Run: r, hist: r.Path(cur)}
			if x.hist == nil {
				x.hist = []string{}
			}
			x.Violate("cycle", "the hand can return to a state it was in before: an endless play exists", "acyclic", fmt.Sprintf("%d states on or behind a cycle", n-done))
		}
	}
	var chips int64
	for _, b := range r.Cfg.Bankroll {
		chips += b
	}
	if chips < 1<<40 { // beyond that the bound is astronomically above any explored path (and would overflow)
		bound := int64(12 + 4*r.Cfg.Seats()*(int(chips)+2))
		if int64(maxLen) > bound {
			x := &Ctx{Run: r, hist: []string{}}
			x.Violate("path-too-long", "a play is longer than the bound linear in seats x chips", fmt.Sprint(bound), fmt.Sprint(maxLen))
		}
	}
}

// startGrid: Start() succeeds only with >= 2 players, positive bankrolls, a dealer and a deck.
func startGrid(rep *explore.Report) {
	brs := []int64{-1, 0, 1}
	for n := 0; n <= 3; n++ {
		for _, br := range vectors(n, []int64{0, 1, 2}) { // indexes into brs
			for dealer := 0; dealer <= 1; dealer++ {
				for deck := 0; deck <= 1; deck++ {
					o := pf.NewStardardGameOptions()
					if deck == 1 {
						o.Deck = pf.NewStandardDeckCards()
					}
					allPos := true
					for i, b := range br {
						pos := []string{}
						if dealer == 1 && i == 0 {
							pos = append(pos, "dealer")
						}
						if i == 1 {
							pos = append(pos, "sb")
						}
						if i == 2 || (n == 2 && i == 1) {
							pos = append(pos, "bb")
						}
						o.Players = append(o.Players, &pf.PlayerSetting{Bankroll: brs[b], Positions: pos})
						if brs[b] <= 0 {
							allPos = false
						}
					}
					ok := n >= 2 && allPos && dealer == 1 && deck == 1
					var err error
					var pan string
					func() {
						defer func() {
							if r := recover(); r != nil {
								pan = fmt.Sprint(r)
							}
						}()
						err = pf.NewGame(o).Start()
					}()
					rep.Add("start_option_vectors", 1)
					desc := fmt.Sprintf("players=%d bankrolls=%v dealer=%v deck=%v", n, br, dealer == 1, deck == 1)
					cfgJSON := []byte(fmt.Sprintf("%q", desc))
					switch {
					case pan != "":
						rep.Violation(&explore.Violation{Property: "C06", Engine: "none", Signature: "start-panics", Message: "Start() panics on " + desc, Config: cfgJSON, Observed: pan})
					case err == nil && !ok:
						rep.Violation(&explore.Violation{Property: "C06", Engine: "none", Signature: "start-accepts-invalid", Message: "Start() accepts " + desc, Config: cfgJSON, Expected: "error"})
					case err != nil && ok:
						rep.Violation(&explore.Violation{Property: "C06", Engine: "none", Signature: "start-refuses-valid", Message: "Start() refuses " + desc, Config: cfgJSON, Observed: err.Error()})
					}
				}
			}
		}
	}
}

// RunC06 explores the play grid recording the transition relation.
func RunC06(rep *explore.Report, tier string) {
	rep.Set("rule", "Start() on every option vector of a small valid/invalid grid; every reachable state of the play grid: wait point, expected step succeeds, street order, result iff closed, closed hand accepts nothing; the full transition graph of every configuration is checked acyclic with all maximal paths ending in GameClosed; distinct_nontrivial = distinct closed (terminal) states reached")
	startGrid(rep)
	v := &c06{}
	after := func(r *Run) {
		if r.bfs != nil && r.bfs.Capped == "" {
			v.graphCheck(r)
		}
	}
	if RunScenes(rep, tier, Visitors["C06"], GridOpts{Property: "C06", Edges: true, After: after}) {
		return
	}
	RunGrid(rep, PlayGrid(tier), Visitors["C06"], GridOpts{Property: "C06", Edges: true, MaxState: 3000000, After: after})
	rep.Set("distinct_nontrivial", rep.Get("terminal_states"))
	rep.Set("evaluations", rep.Get("transitions"))
}
