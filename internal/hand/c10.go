package hand

import (
	"fmt"
	"runtime"
	"sync"
	"sync/atomic"

	pf "github.com/weedbox/pokerface"
	"github.com/weedbox/pokerface/combination"

	"verif/internal/explore"
	"verif/internal/pots"
	"verif/internal/refmodel"
)

func init() { Visitors["C10"] = func() Visitor { return &c10{} } }

// c10: each player's reported hand is their true best hand.
type c10 struct{ Base }

// checkReported is the C10 oracle for one player. It returns "" or (sig, msg).
func checkReported(rankings combination.PowerRankings, shortTable bool, required int, hole, board []string, ci *pf.CombinationInfo) (string, string) {
	if ci == nil {
		return "no-combination", "no hand reported"
	}
	if len(ci.Cards) != 5 {
		return "not-five-cards", fmt.Sprintf("reported hand has %d cards: %v", len(ci.Cards), ci.Cards)
	}
	own := map[string]bool{}
	isHole := map[string]bool{}
	for _, c := range hole {
		own[c], isHole[c] = true, true
	}
	for _, c := range board {
		own[c] = true
	}
	seen := map[string]bool{}
	nh := 0
	for _, c := range ci.Cards {
		if !own[c] {
			return "foreign-card", fmt.Sprintf("reported hand %v uses %s, which is neither a hole card %v nor on the board %v", ci.Cards, c, hole, board)
		}
		if seen[c] {
			return "duplicate-card", fmt.Sprintf("reported hand %v uses %s twice", ci.Cards, c)
		}
		seen[c] = true
		if isHole[c] {
			nh++
		}
	}
	if required != 0 && nh != required {
		return "hole-card-count", fmt.Sprintf("reported hand %v uses %d hole cards of %v, the variant requires exactly %d", ci.Cards, nh, hole, required)
	}
	ps := combination.CalculatePower(rankings, append([]string{}, ci.Cards...))
	if combination.CombinationSymbol[ps.Combination] != ci.Type || int(ps.Score) != ci.Power {
		return "inconsistent-report", fmt.Sprintf("reported %s/%d for %v, which evaluates to %s/%d", ci.Type, ci.Power, ci.Cards, combination.CombinationSymbol[ps.Combination], ps.Score)
	}
	best, _, amb := refmodel.Best(refmodel.ParseCards(hole), refmodel.ParseCards(board), required, shortTable)
	if amb {
		return "", ""
	}
	sel := refmodel.ParseCards(ci.Cards)
	if shortTable && refmodel.ShortDeckLowStraight(sel) {
		return "", ""
	}
	got := refmodel.ClassKey(refmodel.Eval5(sel), shortTable)
	if got < best {
		return "not-the-best-hand", fmt.Sprintf("hole %v board %v: reported %v (%s) is beaten by another admissible selection", hole, board, ci.Cards, ci.Type)
	}
	if got > best {
		return "harness-ref-mismatch", "reported hand ranks above every admissible selection of the reference"
	}
	return "", ""
}

func (v *c10) OnState(x *Ctx, s *St) {
	gs := s.GS
	if len(gs.Status.Board) < 3 {
		return
	}
	c := x.Run.Cfg
	short := c.Table == "short"
	for _, p := range gs.Players {
		x.Run.Count("reported_hands_checked", 1)
		if sig, msg := checkReported(gs.Meta.CombinationPowers, short, gs.Meta.RequiredHoleCardsCount, p.HoleCards, gs.Status.Board, p.Combination); sig != "" {
			x.Violate("inplay:"+sig+":"+gs.Status.Round, fmt.Sprintf("seat %d: %s", p.Idx, msg), "", "")
		}
	}
	if gs.Status.CurrentEvent == "GameClosed" && gs.Result != nil && alive(gs) >= 2 {
		// the strength the showdown compared must be the true best hand's
		n := len(gs.Players)
		contrib := make([]int64, n)
		fold := make([]bool, n)
		strength := make([]int, n)
		changed := make([]int64, n)
		for i, p := range gs.Players {
			contrib[i] = p.Pot + p.Wager
			fold[i] = p.Fold
			best, _, amb := refmodel.Best(refmodel.ParseCards(p.HoleCards), refmodel.ParseCards(gs.Status.Board), gs.Meta.RequiredHoleCardsCount, short)
			if amb {
				return
			}
			strength[i] = int(best)
		}
		for _, pr := range gs.Result.Players {
			if pr.Idx >= 0 && pr.Idx < n {
				changed[pr.Idx] = pr.Changed
			}
		}
		x.Run.Count("showdowns_checked_against_true_strength", 1)
		if sig, msg := pots.CheckSettlement(contrib, fold, strength, changed); sig != "" && sig != "uneven-split" {
			x.Violate("showdown-strength:"+sig, "the showdown did not compare the players' true best hands: "+msg, "", "")
		}
	}
}

// ---- (a) narrow seam: every hole/board split of small sub-decks -----------------

type subdeck struct {
	Name     string
	Cards    []string
	Table    string
	Hole     int
	Required int
	Sizes    []int // total number of cards in play (hole + board)
}

func cross(suits, ranks string) []string {
	var out []string
	for _, s := range suits {
		for _, r := range ranks {
			out = append(out, string(s)+string(r))
		}
	}
	return out
}

func subdecks(tier string) []subdeck {
	ds := []subdeck{
		{"wheel-broadway-2suits", cross("SH", "A2345TJQK"), "standard", 2, 0, []int{5, 6, 7}},
		{"quads-boats-4suits", cross("SHDC", "AK76"), "standard", 2, 0, []int{5, 6, 7}},
		{"short-flush-vs-boat", cross("SHD", "KQJ97"), "short", 2, 0, []int{5, 6, 7}},
		{"omaha-exactly-two", cross("SH", "A2345K"), "standard", 4, 2, []int{7, 8, 9}},
		{"short-omaha-flush-and-boat", append(cross("S", "AKQJ76"), cross("HD", "AKQ")...), "short", 4, 2, []int{7, 8, 9}},
	}
	if tier == "thorough" {
		ds = append(ds,
			subdeck{"short-flush-vs-boat-straights", cross("SHD", "KQJT97"), "short", 2, 0, []int{5, 6, 7}},
			subdeck{"trips-quads-lowstraight", cross("SHDC", "A9876"), "standard", 2, 0, []int{5, 6, 7}},
			subdeck{"short-A9876", cross("SHDC", "A9876"), "short", 2, 0, []int{5, 6, 7}},
			subdeck{"omaha-16", cross("SHDC", "AK32"), "standard", 4, 2, []int{7, 8, 9}},
			subdeck{"three-required", cross("SHD", "AKQ2"), "standard", 4, 3, []int{7, 8}},
		)
	}
	return ds
}

func chooseIdx(n, k int, f func([]int)) {
	if k > n {
		return
	}
	idx := make([]int, k)
	for i := range idx {
		idx[i] = i
	}
	for {
		f(idx)
		i := k - 1
		for i >= 0 && idx[i] == n-k+i {
			i--
		}
		if i < 0 {
			return
		}
		idx[i]++
		for j := i + 1; j < k; j++ {
			idx[j] = idx[j-1] + 1
		}
	}
}

type c10cfg struct {
	Deck     string   `json:"subdeck"`
	Table    string   `json:"table"`
	Hole     []string `json:"hole"`
	Board    []string `json:"board"`
	Required int      `json:"required"`
}

func evalSituation(table string, required int, hole, board []string) (string, string) {
	c := &Config{Bankroll: []int64{5, 5}, SB: 1, BB: 2, Limit: "no", Hole: len(hole), Required: required, Table: table, Deck: "f52"}
	g := pf.NewGame(c.Options())
	gs := g.GetState()
	gs.Status.Board = append([]string{}, board...)
	gs.Players[0].HoleCards = append([]string{}, hole...)
	gs.Players[1].HoleCards = append([]string{}, hole...)
	if err := g.UpdateCombinationOfAllPlayers(); err != nil {
		return "update-error", err.Error()
	}
	return checkReported(gs.Meta.CombinationPowers, table == "short", required, hole, board, gs.Players[0].Combination)
}

func runSubdecks(rep *explore.Report, tier string) {
	for _, d := range subdecks(tier) {
		d := d
		var situations int64
		type task struct{ sub []int }
		ch := make(chan []int, 256)
		var wg sync.WaitGroup
		for w := 0; w < runtime.NumCPU(); w++ {
			wg.Add(1)
			go func() {
				defer wg.Done()
				for sub := range ch {
					k := len(sub)
					chooseIdx(k, d.Hole, func(hi []int) {
						inHole := map[int]bool{}
						var hole, board []string
						for _, i := range hi {
							inHole[i] = true
							hole = append(hole, d.Cards[sub[i]])
						}
						for i := 0; i < k; i++ {
							if !inHole[i] {
								board = append(board, d.Cards[sub[i]])
							}
						}
						atomic.AddInt64(&situations, 1)
						if sig, msg := evalSituation(d.Table, d.Required, hole, board); sig != "" {
							cfg := c10cfg{Deck: d.Name, Table: d.Table, Hole: hole, Board: board, Required: d.Required}
							b, _ := jsonMarshal(cfg)
							v := &explore.Violation{Property: "C10", Engine: "hand-c10", Signature: "subdeck:" + sig, Message: msg, Config: b,
								History: []string{fmt.Sprintf("hole=%v board=%v", hole, board)}}
							v.Confirm = func() (bool, string) { return ReplayC10(v) }
							rep.Violation(v)
						}
					})
				}
			}()
		}
		for _, size := range d.Sizes {
			chooseIdx(len(d.Cards), size, func(sub []int) { ch <- append([]int{}, sub...) })
		}
		close(ch)
		wg.Wait()
		rep.Add("subdeck_situations", situations)
		rep.Add("states", situations)
		rep.Add("transitions", situations)
		rep.Add("traces_validated_against_impl", situations)
		rep.Sample(map[string]any{"subdeck": d.Name, "cards": d.Cards, "table": d.Table, "hole_cards": d.Hole, "required": d.Required, "situations": situations})
	}
}

// ReplayC10 re-evaluates one recorded hole/board situation.
func ReplayC10(v *explore.Violation) (bool, string) {
	var cfg c10cfg
	if err := jsonUnmarshal(v.Config, &cfg); err != nil {
		return false, err.Error()
	}
	sig, msg := evalSituation(cfg.Table, cfg.Required, cfg.Hole, cfg.Board)
	if "subdeck:"+sig == v.Signature {
		return true, msg
	}
	return false, "oracle silent (" + sig + ")"
}

// RunC10: sub-deck enumeration through the narrow seam, then every street of every hand of the play grid.
func RunC10(rep *explore.Report, tier string) {
	rep.Set("rule", "(a) for each sub-deck every hole/board split of every subset of the listed sizes, through NewGame + UpdateCombinationOfAllPlayers; (b) every seat at every state with community cards of the play grid, and every showdown re-settled with the reference strengths; oracle refBest/refEval; distinct_nontrivial = hole/board situations evaluated through the narrow seam")
	if RunScenes(rep, tier, Visitors["C10"], GridOpts{Property: "C10"}) {
		return
	}
	runSubdecks(rep, tier)
	grid := PlayGrid(tier)
	if tier != "thorough" {
		for _, c := range grid {
			if c.Amounts == "all" {
				if c.Amounts == "all" {
					c.Amounts = "classes"
				}
			}
		}
	}
	RunGrid(rep, grid, Visitors["C10"], GridOpts{Property: "C10", MaxState: 3000000})
	// the same oracle on genuinely uninterrupted objects (pure replay, no state cloning)
	RunGrid(rep, ReplayGrid(tier), Visitors["C10"], GridOpts{Property: "C10", MaxState: 300000, Mode: "replay"})
	rep.Set("distinct_nontrivial", rep.Get("subdeck_situations"))
	rep.Set("evaluations", rep.Get("subdeck_situations")+rep.Get("reported_hands_checked"))
}
