package hand

import (
	"bytes"
	"encoding/json"
	"fmt"
	"reflect"
	"sync"
	"time"

	pf "github.com/weedbox/pokerface"

	"verif/internal/explore"
)

// St is one explored state: an owned snapshot of the engine state plus the
// state of the property's monitor automaton (product construction).
type St struct {
	GS   *pf.GameState
	Mon  string
	Hist []Op // replay mode only: operations from the started game
}

// Visitor is the property-specific part of an exploration.
type Visitor interface {
	InitMon(x *Ctx, gs *pf.GameState) string
	OnState(x *Ctx, s *St)
	OnStep(x *Ctx, s *St, op Op, post *pf.GameState) string
	OnRefused(x *Ctx, s *St, op Op, err error, post *pf.GameState)
	OnPanic(x *Ctx, s *St, op Op, p string)
}

// DeadEnder is implemented by visitors that want to hear about non-terminal
// states without any accepted operation.
type DeadEnder interface {
	OnDeadEnd(x *Ctx, s *St)
}

// ExtraOpser is implemented by visitors that want more operations tried at a
// state than the expected alphabet: those that are accepted become
// transitions of the explored graph, refusals are ignored.
type ExtraOpser interface {
	ExtraOps(x *Ctx, s *St) []Op
}

// Base is a Visitor that does nothing.
type Base struct{}

func (Base) InitMon(*Ctx, *pf.GameState) string            { return "" }
func (Base) OnState(*Ctx, *St)                             {}
func (Base) OnStep(*Ctx, *St, Op, *pf.GameState) string    { return "" }
func (Base) OnRefused(*Ctx, *St, Op, error, *pf.GameState) {}
func (Base) OnPanic(x *Ctx, s *St, op Op, p string)        { x.Run.Rep.Add("panics_in_alphabet_ops", 1) }

// Run is the exploration of one configuration.
type Run struct {
	Cfg      *Config
	Rep      *explore.Report
	Vis      Visitor
	Property string
	Mode     string // "clone" | "replay"
	Workers  int
	MaxState int
	Deadline time.Time
	CrossN   int  // cross-check every CrossN-th expanded state against a genuine replay (0 = never)
	Edges    bool // record the transition relation (C06)

	bfs     *explore.BFS[*St]
	edgeMu  sync.Mutex
	EdgeSrc []int32
	EdgeDst []int32
	Term    []int32 // ids of terminal (GameClosed) states

	cntMu  sync.Mutex
	counts map[string]int64
	cfgJ   []byte
}

func (r *Run) cfgJSON() []byte {
	r.cntMu.Lock()
	defer r.cntMu.Unlock()
	if r.cfgJ == nil {
		r.cfgJ = r.Cfg.JSON()
	}
	return r.cfgJ
}

// Count adds to a coverage counter (buffered per run, flushed into the report).
func (r *Run) Count(key string, n int64) {
	r.cntMu.Lock()
	if r.counts == nil {
		r.counts = map[string]int64{}
	}
	r.counts[key] += n
	r.cntMu.Unlock()
}

func (r *Run) flush() {
	r.cntMu.Lock()
	for k, v := range r.counts {
		r.Rep.Add(k, v)
	}
	r.counts = nil
	r.cntMu.Unlock()
}

// Ctx is handed to visitor callbacks; it knows where in the search we are.
type Ctx struct {
	Run      *Run
	node     explore.Node[*St]
	hist     []string // when replaying outside the BFS
	violated bool     // a violation was recorded through this context
}

// History returns the operation labels leading to the current state.
func (x *Ctx) History() []string {
	if x.Run.bfs != nil && x.hist == nil {
		return x.Run.bfs.Path(x.node.ID)
	}
	return append([]string{}, x.hist...)
}

func (x *Ctx) Depth() int { return x.node.Depth }

// Fresh returns a new, independent real game object positioned at s.
func (x *Ctx) Fresh(s *St) pf.Game {
	if x.Run.Mode == "replay" {
		g, err := Replay(x.Run.Cfg, s.Hist)
		if err != nil {
			panic("hand: replay failed: " + err.Error())
		}
		return g
	}
	return pf.NewGameFromState(explore.DeepCopy(s.GS))
}

// Report records a counterexample like Violate but does not mark the current
// state as corrupt (used by refusal probes whose state is unchanged).
func (x *Ctx) Report(sig, msg, expected, observed string, extra ...Op) {
	was := x.violated
	x.Violate(sig, msg, expected, observed, extra...)
	x.violated = was
}

// Violate records a counterexample ending with the given extra operations.
func (x *Ctx) Violate(sig, msg, expected, observed string, extra ...Op) {
	x.violated = true
	hl := x.node.Depth + len(extra)
	if x.hist != nil {
		hl = len(x.hist) + len(extra)
	}
	if x.Run.Rep.SkipCfg(sig, hl, x.Run.cfgJSON()) {
		return
	}
	h := x.History()
	for _, o := range extra {
		h = append(h, o.Label())
	}
	v := &explore.Violation{Property: x.Run.Property, Engine: "hand", Signature: sig, Message: msg,
		Config: x.Run.cfgJSON(), History: h, Expected: expected, Observed: observed}
	cfg := x.Run.Cfg
	v.GoTestFn = func() string { return goTest(cfg, h) }
	v.Confirm = func() (bool, string) { return ReplayViolation(v) }
	x.violated = true
	x.Run.Rep.Violation(v)
}

// ---- keys ---------------------------------------------------------------------

// Snapshot normalises a live state we own: timestamps and ids are not part of
// the behaviour (C07: "up to timestamps").
func normalise(gs *pf.GameState) {
	gs.UpdatedAt = 0
	gs.CreatedAt = 0
	gs.GameID = ""
}

// StateJSON is the canonical full-fidelity rendering: the JSON document plus
// the non-serialised pot levels.
func StateJSON(gs *pf.GameState) []byte {
	var buf bytes.Buffer
	u, c, id := gs.UpdatedAt, gs.CreatedAt, gs.GameID
	gs.UpdatedAt, gs.CreatedAt, gs.GameID = 0, 0, ""
	b, err := json.Marshal(gs)
	gs.UpdatedAt, gs.CreatedAt, gs.GameID = u, c, id
	if err != nil {
		panic(err)
	}
	buf.Write(b)
	buf.WriteString("|levels:")
	for _, p := range gs.Status.Pots {
		if p == nil {
			buf.WriteString("nil;")
			continue
		}
		lb, _ := json.Marshal(p.Levels)
		buf.Write(lb)
		buf.WriteByte(';')
	}
	return buf.Bytes()
}

func keyOf(s *St) explore.Key {
	b := StateJSON(s.GS)
	b = append(b, "|mon:"...)
	b = append(b, s.Mon...)
	return explore.HashKey(b)
}

// ---- accelerator guard ----------------------------------------------------------

// CloneGuard reports whether the unexported game/player structs hold exactly
// the fields that LoadState rebuilds from the GameState, which is what makes
// "deep copy of the live state + NewGameFromState" a faithful fork.
func CloneGuard() (bool, string) {
	c := &Config{Bankroll: []int64{5, 5}, BB: 2, SB: 1, Limit: "no", Hole: 2, Table: "standard", Deck: "f52"}
	g := pf.NewGame(c.Options())
	gt := reflect.TypeOf(g).Elem()
	want := []string{"gs", "players", "dealer", "smallBlind", "bigBlind"}
	if gt.NumField() != len(want) {
		return false, fmt.Sprintf("game struct has %d fields, expected %v", gt.NumField(), want)
	}
	for i, w := range want {
		if gt.Field(i).Name != w {
			return false, fmt.Sprintf("game field %d is %s, expected %s", i, gt.Field(i).Name, w)
		}
	}
	pt := reflect.TypeOf(g.Player(0)).Elem()
	wantP := []string{"idx", "game", "state"}
	if pt.NumField() != len(wantP) {
		return false, fmt.Sprintf("player struct has %d fields, expected %v", pt.NumField(), wantP)
	}
	for i, w := range wantP {
		if pt.Field(i).Name != w {
			return false, fmt.Sprintf("player field %d is %s, expected %s", i, pt.Field(i).Name, w)
		}
	}
	return true, ""
}

// Replay builds a fresh game for c and applies ops on the one uninterrupted
// in-memory object ("Reload" ops rebuild it from its JSON, for C07).
func Replay(c *Config, ops []Op) (pf.Game, error) {
	g, err := c.NewStarted()
	if err != nil {
		return nil, fmt.Errorf("Start: %w", err)
	}
	var gg pf.Game = g
	for i, o := range ops {
		if o.Kind == "Reload" {
			gg = ReloadJSON(gg)
			continue
		}
		err, p := Apply(gg, o)
		if p != "" {
			return gg, fmt.Errorf("op %d %s panicked: %s", i, o.Label(), p)
		}
		if err != nil {
			return gg, fmt.Errorf("op %d %s: %w", i, o.Label(), err)
		}
	}
	return gg, nil
}

// ReloadJSON is a process restart: the game is rebuilt from its JSON alone.
func ReloadJSON(g pf.Game) pf.Game {
	b, err := json.Marshal(g.GetState())
	if err != nil {
		panic(err)
	}
	var gs pf.GameState
	if err := json.Unmarshal(b, &gs); err != nil {
		panic(err)
	}
	return pf.NewGameFromState(&gs)
}

func ParseOps(labels []string) ([]Op, error) {
	var ops []Op
	for _, l := range labels {
		o, err := ParseOp(l)
		if err != nil {
			return nil, err
		}
		ops = append(ops, o)
	}
	return ops, nil
}

// ---- exploration --------------------------------------------------------------

// Explore runs the BFS for one configuration.
func (r *Run) Explore() {
	cfg := r.Cfg
	g0, err := cfg.NewStarted()
	if err != nil {
		r.Rep.Add("configs_rejected_by_start", 1)
		return
	}
	gs0 := g0.GetState()
	normalise(gs0)
	x0 := &Ctx{Run: r}
	init := &St{GS: gs0, Mon: r.Vis.InitMon(x0, gs0)}
	if r.Mode == "replay" {
		init.Hist = []Op{}
	}
	b := &explore.BFS[*St]{Workers: r.Workers, MaxStates: r.MaxState, Deadline: r.Deadline, KeyOf: keyOf}
	r.bfs = b
	b.Run([]*St{init}, func(n explore.Node[*St], emit func(string, *St) (int32, bool)) {
		x := &Ctx{Run: r, node: n}
		s := n.State
		if r.CrossN > 0 && r.Mode == "clone" && int(n.ID)%r.CrossN == 0 {
			r.crossCheck(x, s)
		}
		r.Vis.OnState(x, s)
		if x.violated {
			// a state that already violates the property is a counterexample, not a
			// starting point: its successors would only repeat the same root cause
			r.Count("violating_states_not_expanded", 1)
			return
		}
		if s.GS.Status.CurrentEvent == "GameClosed" {
			r.edgeMu.Lock()
			r.Term = append(r.Term, n.ID)
			r.edgeMu.Unlock()
			return
		}
		accepted := 0
		defer func() {
			if accepted == 0 {
				if de, ok := r.Vis.(DeadEnder); ok {
					de.OnDeadEnd(x, s)
				}
			}
		}()
		alphabet := Alphabet(cfg, s.GS)
		nExpected := len(alphabet)
		if eo, ok := r.Vis.(ExtraOpser); ok {
			alphabet = append(alphabet, eo.ExtraOps(x, s)...)
		}
		for opi, op := range alphabet {
			g := x.Fresh(s)
			err, p := Apply(g, op)
			if opi >= nExpected && (err != nil || p != "") {
				continue // an extra operation that is refused is nobody's business here
			}
			post := g.GetState()
			normalise(post)
			if p != "" {
				r.Vis.OnPanic(x, s, op, p)
				continue
			}
			if err != nil {
				r.Count("refused_alphabet_ops", 1)
				r.Vis.OnRefused(x, s, op, err, post)
				continue
			}
			x.violated = false
			mon := r.Vis.OnStep(x, s, op, post)
			if x.violated {
				r.Count("violating_states_not_expanded", 1)
				x.violated = false
				continue
			}
			ns := &St{GS: post, Mon: mon}
			if r.Mode == "replay" {
				ns.Hist = append(append([]Op{}, s.Hist...), op)
			}
			accepted++
			id, _ := emit(op.Label(), ns)
			if r.Edges {
				r.edgeMu.Lock()
				r.EdgeSrc = append(r.EdgeSrc, n.ID)
				r.EdgeDst = append(r.EdgeDst, id)
				r.edgeMu.Unlock()
			}
		}
	})
	r.flush()
	r.Rep.Add("states", b.States)
	r.Rep.Add("transitions", b.Transitions)
	r.Rep.Add("traces_validated_against_impl", b.Transitions)
	r.Rep.Add("configurations", 1)
	r.Rep.Add("terminal_states", int64(len(r.Term)))
	r.Rep.Max("max_depth", int64(b.MaxDepth))
	if b.Capped != "" {
		r.Rep.Cap(fmt.Sprintf("%s in config %s (states=%d, completed depth=%d)", b.Capped, cfg.Short(), b.States, b.MaxDepth))
	}
}

// crossCheck replays the BFS path to s on one genuine uninterrupted game and
// compares the full-fidelity rendering with the clone-derived state.
func (r *Run) crossCheck(x *Ctx, s *St) {
	ops, err := ParseOps(x.History())
	if err != nil {
		r.Rep.Broken = "cross-check: " + err.Error()
		return
	}
	g, err := Replay(r.Cfg, ops)
	r.Count("clone_vs_replay_crosschecks", 1)
	if err != nil {
		r.Rep.Add("clone_vs_replay_disagreements", 1)
		r.Rep.Set("clone_vs_replay_first_disagreement", fmt.Sprintf("%s: %v: %v", r.Cfg.Short(), x.History(), err))
		return
	}
	if !bytes.Equal(StateJSON(g.GetState()), StateJSON(s.GS)) {
		r.Rep.Add("clone_vs_replay_disagreements", 1)
		r.Rep.Set("clone_vs_replay_first_disagreement", fmt.Sprintf("%s: %v", r.Cfg.Short(), x.History()))
	}
}

// Path exposes the BFS path of a node id (labels).
func (r *Run) Path(id int32) []string { return r.bfs.Path(id) }

// States returns the number of states found.
func (r *Run) States() int64 { return r.bfs.States }

// PlayOut drives one real hand of configuration c to GameClosed, always taking the most passive
// offered action (check, else call, else pass, else fold), and returns the final state.
func PlayOut(c *Config) (*pf.GameState, error) {
	g, err := c.NewStarted()
	if err != nil {
		return nil, err
	}
	for step := 0; step < 500; step++ {
		gs := g.GetState()
		if gs.Status.CurrentEvent == "GameClosed" {
			return gs, nil
		}
		ops := Alphabet(c, gs)
		if len(ops) == 0 {
			return gs, fmt.Errorf("no step available at %s", gs.Status.CurrentEvent)
		}
		pick := ops[0]
		rank := map[string]int{"Check": 0, "Call": 1, "Pass": 2, "Fold": 3}
		best := 99
		for _, o := range ops {
			if r, ok := rank[o.Kind]; ok && r < best {
				best, pick = r, o
			}
		}
		if err, p := Apply(g, pick); err != nil || p != "" {
			return gs, fmt.Errorf("%s failed: %v %s", pick.Label(), err, p)
		}
	}
	return g.GetState(), fmt.Errorf("hand did not close")
}
