package hand

import (
	"fmt"
	"strconv"
	"strings"

	pf "github.com/weedbox/pokerface"

	"verif/internal/explore"
)

func init() { Visitors["C05"] = func() Visitor { return &c05{} } }

// c05: a betting round closes exactly when it should. The monitor automaton
// (its state is part of the search key) tracks, per seat, whether the seat has
// had a turn since the wager to match last rose, and how many turns were taken
// since the last wager increase or all-in.
type c05 struct{ Base }

type mon05 struct {
	turn  []bool
	since int
}

func (m mon05) String() string {
	var b strings.Builder
	for _, t := range m.turn {
		if t {
			b.WriteByte('1')
		} else {
			b.WriteByte('0')
		}
	}
	b.WriteByte('/')
	b.WriteString(strconv.Itoa(m.since))
	return b.String()
}

func parseMon05(s string, n int) mon05 {
	m := mon05{turn: make([]bool, n)}
	i := strings.IndexByte(s, '/')
	if i < 0 {
		return m
	}
	for k := 0; k < i && k < n; k++ {
		m.turn[k] = s[k] == '1'
	}
	m.since, _ = strconv.Atoi(s[i+1:])
	return m
}

func alive(gs *pf.GameState) int {
	c := 0
	for _, p := range gs.Players {
		if !p.Fold {
			c++
		}
	}
	return c
}

func withChips(gs *pf.GameState) int {
	c := 0
	for _, p := range gs.Players {
		if !p.Fold && p.StackSize > 0 {
			c++
		}
	}
	return c
}

var actionKinds = map[string]bool{"Pass": true, "Fold": true, "Check": true, "Call": true, "Allin": true, "Bet": true, "Raise": true, "Pay": true}

func (v *c05) OnState(x *Ctx, s *St) {
	gs := s.GS
	st := gs.Status
	later := st.Round == "flop" || st.Round == "turn" || st.Round == "river"
	if later && st.CurrentEvent == "ReadyRequested" && alive(gs) >= 2 && withChips(gs) < 2 {
		x.Violate("betting-round-opened-without-two-stacks", fmt.Sprintf("a %s betting round is opened although fewer than two players still have chips", st.Round), ">= 2 players with chips", fmt.Sprint(withChips(gs)))
	}
	if st.CurrentEvent == "GameClosed" && alive(gs) >= 2 && len(st.Board) != 5 {
		x.Violate("showdown-without-full-board", "hand closed with two or more live players but the board is not complete", "5 board cards", fmt.Sprint(len(st.Board)))
	}
	if st.CurrentEvent == "RoundStarted" {
		m := parseMon05(s.Mon, len(gs.Players))
		if m.since > len(gs.Players)-1 {
			x.Violate("round-open-after-a-full-lap", "betting round still open more than one lap after the last wager increase or all-in", fmt.Sprintf("<= %d turns", len(gs.Players)-1), fmt.Sprint(m.since))
		}
	}
}

func (v *c05) OnStep(x *Ctx, s *St, op Op, post *pf.GameState) string {
	pre := s.GS
	n := len(pre.Players)
	// a betting round opens
	if post.Status.CurrentEvent == "RoundStarted" && pre.Status.CurrentEvent != "RoundStarted" {
		if r := post.Status.Round; (r == "flop" || r == "turn" || r == "river") && alive(post) >= 2 && withChips(post) < 2 {
			x.Violate("betting-round-opened-without-two-stacks", fmt.Sprintf("a %s betting round is opened although fewer than two players still have chips", r), ">= 2 players with chips", fmt.Sprint(withChips(post)), op)
		}
		return mon05{turn: make([]bool, n)}.String()
	}
	if pre.Status.CurrentEvent == "RoundStarted" && actionKinds[op.Kind] {
		m := parseMon05(s.Mon, n)
		c := pre.Status.CurrentPlayer
		rose := post.Status.CurrentWager > pre.Status.CurrentWager
		wentAllin := c >= 0 && c < n && pre.Players[c].StackSize > 0 && post.Players[c].StackSize == 0
		if rose {
			for i := range m.turn {
				m.turn[i] = false
			}
		}
		if c >= 0 && c < n {
			m.turn[c] = true
		}
		if rose || wentAllin {
			m.since = 0
		} else {
			m.since++
		}
		x.Run.Count("betting_turns", 1)
		switch post.Status.CurrentEvent {
		case "RoundStarted":
			if alive(post) == 1 {
				x.Violate("one-player-left-round-not-closed", "only one non-folded player remains but the round stays open", "RoundClosed", "RoundStarted", op)
			}
			return m.String()
		case "RoundClosed":
			x.Run.Count("round_closings_checked", 1)
			if alive(post) >= 2 {
				for _, p := range post.Players {
					if p.Fold || p.StackSize == 0 {
						continue
					}
					if p.Wager != post.Status.CurrentWager {
						x.Violate("closed-with-unmatched-wager", fmt.Sprintf("round closed while seat %d (with chips) has put in less than the wager to match", p.Idx), fmt.Sprint(post.Status.CurrentWager), fmt.Sprint(p.Wager), op)
					}
					if !m.turn[p.Idx] {
						x.Violate("closed-before-turn", fmt.Sprintf("round closed although seat %d has not had a turn since the wager last went up", p.Idx), "a turn", "none", op)
					}
				}
			}
			return ""
		default:
			x.Violate("unexpected-event-after-action", "an action led neither to the next turn nor to the end of the round", "RoundStarted|RoundClosed", post.Status.CurrentEvent, op)
			return ""
		}
	}
	// a round closed without ever having been opened (nobody was asked to act)
	if post.Status.CurrentEvent == "RoundClosed" && pre.Status.CurrentEvent != "RoundStarted" && pre.Status.CurrentEvent != "RoundClosed" && alive(post) >= 2 {
		x.Run.Count("round_closings_checked", 1)
		for _, p := range post.Players {
			if p.Fold || p.StackSize == 0 {
				continue
			}
			if p.Wager != post.Status.CurrentWager {
				x.Violate("closed-with-unmatched-wager", fmt.Sprintf("the %s round was closed without betting while seat %d (with chips) has put in less than the wager to match", post.Status.Round, p.Idx), fmt.Sprint(post.Status.CurrentWager), fmt.Sprint(p.Wager), op)
			} else if post.Status.CurrentWager > 0 {
				x.Violate("closed-before-turn", fmt.Sprintf("the %s round was closed without betting although seat %d (with chips) has had no turn since the wager went up to %d", post.Status.Round, p.Idx, post.Status.CurrentWager), "a turn", "none", op)
			}
		}
	}
	if op.Kind == "Next" && pre.Status.CurrentEvent == "RoundClosed" {
		if alive(pre) == 1 {
			x.Run.Count("early_endings_checked", 1)
			if post.Status.CurrentEvent != "GameClosed" {
				x.Violate("early-end-not-immediate", "one player left but the hand does not end at once", "GameClosed", post.Status.CurrentEvent, op)
			}
			if len(post.Status.Board) != len(pre.Status.Board) {
				x.Violate("early-end-deals-cards", "one player left but further cards were dealt", fmt.Sprint(len(pre.Status.Board)), fmt.Sprint(len(post.Status.Board)), op)
			}
		}
	}
	if post.Status.CurrentEvent == "RoundStarted" {
		return s.Mon
	}
	return ""
}

// RunC05 explores the play grid in product with the owes-an-action monitor.
func RunC05(rep *explore.Report, tier string) {
	rep.Set("rule", "every reachable state of the play grid in product with the monitor automaton (per-seat 'had a turn since the wager last rose' bits, turns since the last increase or all-in); distinct_nontrivial = round-closing transitions whose closing condition was checked")
	if RunScenes(rep, tier, Visitors["C05"], GridOpts{Property: "C05"}) {
		return
	}
	RunGrid(rep, PlayGrid(tier), Visitors["C05"], GridOpts{Property: "C05", MaxState: 3000000})
	// the same oracle on genuinely uninterrupted objects (pure replay, no state cloning)
	RunGrid(rep, ReplayGrid(tier), Visitors["C05"], GridOpts{Property: "C05", MaxState: 300000, Mode: "replay"})
	rep.Set("distinct_nontrivial", rep.Get("round_closings_checked"))
	rep.Set("evaluations", rep.Get("transitions"))
}
