package hand

import (
	"bytes"
	"fmt"

	pf "github.com/weedbox/pokerface"

	"verif/internal/explore"
)

func init() { Visitors["C12"] = func() Visitor { return &c12{} } }

// c12: minimum-raise rule and amount safety.
type c12 struct{ Base }

func amountClass(a int64) string {
	switch {
	case a < 0:
		return "negative"
	case a == 0:
		return "zero"
	}
	return "positive"
}

func (v *c12) safety(x *Ctx, pre, post *pf.GameState, op Op) {
	for _, p := range post.Players {
		if p.Wager < 0 || p.StackSize < 0 || p.Pot < 0 || p.StackSize > p.Bankroll {
			x.Violate(fmt.Sprintf("corrupt:%s:%s", op.Kind, amountClass(op.Arg)), fmt.Sprintf("%s makes a wager, stack or pot negative or lifts a stack above the bankroll (seat %d)", op.Label(), p.Idx),
				"wager, stack, pot >= 0; stack <= bankroll", fmt.Sprintf("wager %d stack %d pot %d bankroll %d", p.Wager, p.StackSize, p.Pot, p.Bankroll), op)
			return
		}
	}
	if post.Status.CurrentRoundPot < 0 {
		x.Violate(fmt.Sprintf("corrupt:%s:%s", op.Kind, amountClass(op.Arg)), op.Label()+" makes the round pot negative", ">= 0", fmt.Sprint(post.Status.CurrentRoundPot), op)
	}
}

func (v *c12) OnStep(x *Ctx, s *St, op Op, post *pf.GameState) string {
	pre := s.GS
	v.safety(x, pre, post, op)
	if pre.Status.CurrentEvent != "RoundStarted" || !actionKinds[op.Kind] {
		return ""
	}
	if post.Status.Round == pre.Status.Round && post.Status.CurrentWager < pre.Status.CurrentWager {
		x.Violate("wager-decreased:"+op.Kind, "the wager to match went down within a round", fmt.Sprintf(">= %d", pre.Status.CurrentWager), fmt.Sprint(post.Status.CurrentWager), op)
	}
	c := pre.Status.CurrentPlayer
	if op.Kind != "Raise" || c < 0 || c >= len(pre.Players) {
		return ""
	}
	x.Run.Count("raises_checked", 1)
	W, R := pre.Status.CurrentWager, pre.Status.PreviousRaiseSize
	S := pre.Players[c].InitialStackSize
	L := op.Arg
	if L < W {
		x.Violate("raise-below-wager-accepted", "a raise request below the current wager was accepted", "refused", "accepted", op)
		return ""
	}
	if x.Run.Cfg.Limit != "no" {
		return ""
	}
	b := post.Players[c]
	switch {
	case L > W && L-W >= R && L < S:
		x.Run.Count("exact_raises_checked", 1)
		if post.Status.CurrentWager != L || post.Status.CurrentRaiser != c || post.Status.PreviousRaiseSize != L-W {
			x.Violate("legal-raise-not-exact", fmt.Sprintf("raise to %d (wager %d, minimum increment %d, stack %d) was not carried out exactly", L, W, R, S),
				fmt.Sprintf("wager to match %d, raiser %d, minimum increment %d", L, c, L-W),
				fmt.Sprintf("wager to match %d, raiser %d, minimum increment %d", post.Status.CurrentWager, post.Status.CurrentRaiser, post.Status.PreviousRaiseSize), op)
		}
	case L > W && L-W < R:
		x.Run.Count("undersized_raises_checked", 1)
		if b.StackSize != 0 {
			x.Violate("undersized-raise-accepted", fmt.Sprintf("raise to %d lifts the wager %d by less than the minimum %d but was carried out with chips left", L, W, R), "refused or all-in", fmt.Sprintf("stack %d, wager to match %d", b.StackSize, post.Status.CurrentWager), op)
		}
	}
	return ""
}

func (v *c12) OnRefused(x *Ctx, s *St, op Op, err error, post *pf.GameState) {
	if !amountOps[op.Kind] {
		return
	}
	x.Run.Count("refused_amounts_checked", 1)
	if !bytes.Equal(StateJSON(s.GS), StateJSON(post)) {
		x.Report(fmt.Sprintf("refused-but-changed:%s:%s", op.Kind, amountClass(op.Arg)), op.Label()+" was refused but changed the state", "state unchanged", "changed", op)
	}
	// a clearly legal no-limit raise must not be refused
	pre := s.GS
	c := pre.Status.CurrentPlayer
	if op.Kind == "Raise" && x.Run.Cfg.Limit == "no" && c >= 0 && c < len(pre.Players) {
		W, R, S := pre.Status.CurrentWager, pre.Status.PreviousRaiseSize, pre.Players[c].InitialStackSize
		if op.Arg > W && op.Arg-W >= R && op.Arg < S {
			x.Report("legal-raise-refused", fmt.Sprintf("raise to %d (wager %d, minimum increment %d, stack %d) was refused", op.Arg, W, R, S), "carried out exactly", err.Error(), op)
		}
	}
}

// RunC12 explores the play grid; every bet/raise amount class is part of the alphabet.
func RunC12(rep *explore.Report, tier string) {
	rep.Set("rule", "every betting state of the play grid x every amount argument (every integer in [-2, max stack+2] plus MinInt64/MaxInt64 in the small configurations, threshold classes elsewhere) for Bet and Raise; distinct_nontrivial = raises that fell in the 'exact' or 'undersized' clause")
	RunGrid(rep, PlayGrid(tier), Visitors["C12"], GridOpts{Property: "C12", MaxState: 3000000})
	rep.Set("distinct_nontrivial", rep.Get("exact_raises_checked")+rep.Get("undersized_raises_checked"))
	rep.Set("evaluations", rep.Get("transitions")+rep.Get("refused_amounts_checked"))
}
