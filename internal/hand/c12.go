package hand

import (
	"bytes"
	"fmt"
	"strconv"

	pf "github.com/weedbox/pokerface"

	"verif/internal/explore"
)

func init() { Visitors["C12"] = func() Visitor { return &c12{} } }

// c12: minimum-raise rule and amount safety. The monitor (part of the search
// key) is the reference minimum raise increment: "the size of the previous bet
// or raise of the round (the big blind before any)", tracked from the amounts
// that actually went in, not from the engine's own bookkeeping.
type c12 struct{ Base }

func (v *c12) InitMon(x *Ctx, gs *pf.GameState) string { return "0" }

func refMinRaise(mon string) int64 {
	r, _ := strconv.ParseInt(mon, 10, 64)
	return r
}

func amountClass(a int64) string {
	switch {
	case a < 0:
		return "negative"
	case a == 0:
		return "zero"
	}
	return "positive"
}

func (v *c12) safety(x *Ctx, pre, post *pf.GameState, op Op) {
	for _, p := range post.Players {
		if p.Wager < 0 || p.StackSize < 0 || p.Pot < 0 || p.StackSize > p.Bankroll {
			x.Violate(fmt.Sprintf("corrupt:%s:%s", op.Kind, amountClass(op.Arg)), fmt.Sprintf("%s makes a wager, stack or pot negative or lifts a stack above the bankroll (seat %d)", op.Label(), p.Idx),
				"wager, stack, pot >= 0; stack <= bankroll", fmt.Sprintf("wager %d stack %d pot %d bankroll %d", p.Wager, p.StackSize, p.Pot, p.Bankroll), op)
			return
		}
	}
	if post.Status.CurrentRoundPot < 0 {
		x.Violate(fmt.Sprintf("corrupt:%s:%s", op.Kind, amountClass(op.Arg)), op.Label()+" makes the round pot negative", ">= 0", fmt.Sprint(post.Status.CurrentRoundPot), op)
	}
}

func (v *c12) OnStep(x *Ctx, s *St, op Op, post *pf.GameState) string {
	mon := v.step(x, s, op, post)
	if post.Status.CurrentEvent != "RoundStarted" {
		return "0" // between rounds the reference is irrelevant: keep the key canonical
	}
	return mon
}

func (v *c12) step(x *Ctx, s *St, op Op, post *pf.GameState) string {
	pre := s.GS
	v.safety(x, pre, post, op)
	// a betting round opens: before any bet the big blind is the minimum raise (preflop)
	if post.Status.CurrentEvent == "RoundStarted" && pre.Status.CurrentEvent != "RoundStarted" {
		if post.Status.Round == "preflop" {
			c := x.Run.Cfg
			if c.BB > 0 {
				return strconv.FormatInt(c.BB, 10)
			}
			return strconv.FormatInt(c.DealerBlind, 10)
		}
		return "0"
	}
	if pre.Status.CurrentEvent != "RoundStarted" || !actionKinds[op.Kind] {
		return s.Mon
	}
	refR := refMinRaise(s.Mon)
	next := s.Mon
	if inc := post.Status.CurrentWager - pre.Status.CurrentWager; inc > 0 && post.Status.Round == pre.Status.Round {
		switch op.Kind {
		case "Bet":
			next = strconv.FormatInt(inc, 10)
		case "Raise", "Allin":
			if op.Kind == "Raise" && op.Arg == pre.Status.CurrentWager {
				break // Raise(level == wager to match) is the engine's alias for Call: not a raise (it may complete a wager below the big blind)
			}
			if inc >= refR {
				next = strconv.FormatInt(inc, 10)
			}
		}
	}
	v.raiseRule(x, s, op, post, refR)
	return next
}

func (v *c12) raiseRule(x *Ctx, s *St, op Op, post *pf.GameState, R int64) string {
	pre := s.GS
	if post.Status.Round == pre.Status.Round && post.Status.CurrentWager < pre.Status.CurrentWager {
		x.Violate("wager-decreased:"+op.Kind, "the wager to match went down within a round", fmt.Sprintf(">= %d", pre.Status.CurrentWager), fmt.Sprint(post.Status.CurrentWager), op)
	}
	c := pre.Status.CurrentPlayer
	if op.Kind != "Raise" || c < 0 || c >= len(pre.Players) {
		return ""
	}
	x.Run.Count("raises_checked", 1)
	W := pre.Status.CurrentWager
	S := pre.Players[c].InitialStackSize
	L := op.Arg
	if L < W {
		x.Violate("raise-below-wager-accepted", "a raise request below the current wager was accepted", "refused", "accepted", op)
		return ""
	}
	if x.Run.Cfg.Limit != "no" {
		return ""
	}
	b := post.Players[c]
	switch {
	case L > W && L-W >= R && L < S:
		x.Run.Count("exact_raises_checked", 1)
		if post.Status.CurrentWager != L || post.Status.CurrentRaiser != c || post.Status.PreviousRaiseSize != L-W {
			x.Violate("legal-raise-not-exact", fmt.Sprintf("raise to %d (wager %d, minimum increment %d, stack %d) was not carried out exactly", L, W, R, S),
				fmt.Sprintf("wager to match %d, raiser %d, minimum increment %d", L, c, L-W),
				fmt.Sprintf("wager to match %d, raiser %d, minimum increment %d", post.Status.CurrentWager, post.Status.CurrentRaiser, post.Status.PreviousRaiseSize), op)
		}
	case L > W && L-W < R:
		x.Run.Count("undersized_raises_checked", 1)
		if b.StackSize != 0 {
			x.Violate("undersized-raise-accepted", fmt.Sprintf("raise to %d lifts the wager %d by less than the minimum %d but was carried out with chips left", L, W, R), "refused or all-in", fmt.Sprintf("stack %d, wager to match %d", b.StackSize, post.Status.CurrentWager), op)
		}
	}
	return ""
}

func (v *c12) OnRefused(x *Ctx, s *St, op Op, err error, post *pf.GameState) {
	if !amountOps[op.Kind] {
		return
	}
	x.Run.Count("refused_amounts_checked", 1)
	if !bytes.Equal(StateJSON(s.GS), StateJSON(post)) {
		x.Report(fmt.Sprintf("refused-but-changed:%s:%s", op.Kind, amountClass(op.Arg)), op.Label()+" was refused but changed the state", "state unchanged", "changed", op)
	}
	// a clearly legal no-limit raise must not be refused
	pre := s.GS
	c := pre.Status.CurrentPlayer
	if op.Kind == "Raise" && x.Run.Cfg.Limit == "no" && c >= 0 && c < len(pre.Players) {
		W, R, S := pre.Status.CurrentWager, refMinRaise(s.Mon), pre.Players[c].InitialStackSize
		if op.Arg > W && op.Arg-W >= R && op.Arg < S {
			x.Report("legal-raise-refused", fmt.Sprintf("raise to %d (wager %d, minimum increment %d, stack %d) was refused", op.Arg, W, R, S), "carried out exactly", err.Error(), op)
		}
	}
}

// RunC12 explores the play grid; every bet/raise amount class is part of the alphabet.
func RunC12(rep *explore.Report, tier string) {
	rep.Set("rule", "every betting state of the play grid x every amount argument (every integer in [-2, max stack+2] plus MinInt64/MaxInt64 in the small configurations, threshold classes elsewhere) for Bet and Raise; distinct_nontrivial = raises that fell in the 'exact' or 'undersized' clause")
	if RunScenes(rep, tier, Visitors["C12"], GridOpts{Property: "C12"}) {
		return
	}
	RunGrid(rep, PlayGrid(tier), Visitors["C12"], GridOpts{Property: "C12", MaxState: 3000000})
	// the same oracle on genuinely uninterrupted objects (pure replay, no state cloning)
	RunGrid(rep, ReplayGrid(tier), Visitors["C12"], GridOpts{Property: "C12", MaxState: 300000, Mode: "replay"})
	rep.Set("distinct_nontrivial", rep.Get("exact_raises_checked")+rep.Get("undersized_raises_checked"))
	rep.Set("evaluations", rep.Get("transitions")+rep.Get("refused_amounts_checked"))
}
