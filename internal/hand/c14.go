package hand

import (
	"fmt"
	"runtime"
	"sort"
	"strings"

	pf "github.com/weedbox/pokerface"
	"github.com/weedbox/pokerface/verifshim/vrt"

	"verif/internal/explore"
)

func init() { Visitors["C14"] = func() Visitor { return &c14{} } }

// c14: dealing consumes the deck top-down without loss, duplication or change.
type c14 struct{ Base }

// dealtSequence rebuilds, from the visible cards, the order in which they must
// have left the deck: seat 0's hole cards, seat 1's, ..., then burn, flop x3,
// burn, turn, burn, river.
func dealtSequence(gs *pf.GameState) []string {
	var seq []string
	for _, p := range gs.Players {
		seq = append(seq, p.HoleCards...)
	}
	b, u := gs.Status.Board, gs.Status.Burned
	bi, ui := 0, 0
	take := func(from []string, i *int, n int) {
		for k := 0; k < n && *i < len(from); k++ {
			seq = append(seq, from[*i])
			*i++
		}
	}
	take(u, &ui, 1)
	take(b, &bi, 3)
	take(u, &ui, 1)
	take(b, &bi, 1)
	take(u, &ui, 1)
	take(b, &bi, 1)
	// anything beyond the regular pattern is appended so that it shows up as a mismatch
	seq = append(seq, u[ui:]...)
	seq = append(seq, b[bi:]...)
	return seq
}

func (v *c14) OnState(x *Ctx, s *St) {
	gs := s.GS
	x.Run.Count("deal_states_checked", 1)
	pos := gs.Status.CurrentDeckPosition
	seq := dealtSequence(gs)
	deck := gs.Meta.Deck
	if pos < 0 || pos > len(deck) {
		x.Violate("cursor-out-of-range", "deck cursor outside the deck", fmt.Sprintf("0..%d", len(deck)), fmt.Sprint(pos))
		return
	}
	if len(seq) != pos {
		x.Violate("dealt-count", "hole cards + board + burned cards are not exactly the consumed top of the deck", fmt.Sprintf("%d cards consumed", pos), fmt.Sprintf("%d cards visible: %v", len(seq), seq))
		return
	}
	// "together exactly the consumed top of the deck": as a collection. The order in which the hole cards
	// go round the table is the dealer's business (seat by seat or one card at a time), the property does
	// not fix it; what it does fix is that a card is burned BEFORE each street is dealt.
	if !sameMultiset(seq, deck[:pos]) {
		x.Violate("dealt-order", "hole cards, board and burned cards together are not the consumed top of the deck", strings.Join(deck[:pos], " "), strings.Join(seq, " "))
		return
	}
	at := map[string]int{}
	for i, c := range deck[:pos] {
		at[c] = i
	}
	streets := [][2]int{{0, 3}, {3, 4}, {4, 5}} // board index ranges of flop, turn, river
	for k, r := range streets {
		if k >= len(gs.Status.Burned) {
			break
		}
		for bi := r[0]; bi < r[1] && bi < len(gs.Status.Board); bi++ {
			if at[gs.Status.Burned[k]] > at[gs.Status.Board[bi]] {
				x.Violate("burn-after-street", fmt.Sprintf("burned card %d left the deck after board card %d", k, bi), "burned before the street is dealt", fmt.Sprintf("burned %s at %d, board %s at %d", gs.Status.Burned[k], at[gs.Status.Burned[k]], gs.Status.Board[bi], at[gs.Status.Board[bi]]))
				return
			}
		}
	}
	for _, p := range gs.Players {
		for _, c := range p.HoleCards {
			if len(gs.Status.Burned) > 0 && at[c] > at[gs.Status.Burned[0]] {
				x.Violate("hole-card-after-burn", "a hole card left the deck after the first burned card", "hole cards first", fmt.Sprintf("%s at %d", c, at[c]))
				return
			}
		}
	}
	seen := map[string]bool{}
	for _, c := range deck {
		if seen[c] {
			x.Violate("deck-duplicate", "the deck holds a card twice", "distinct cards", c)
			return
		}
		seen[c] = true
	}
	if gs.Status.Round != "" {
		for _, p := range gs.Players {
			if len(p.HoleCards) != x.Run.Cfg.Hole {
				x.Violate("hole-count", fmt.Sprintf("seat %d holds %d hole cards", p.Idx, len(p.HoleCards)), fmt.Sprint(x.Run.Cfg.Hole), fmt.Sprint(len(p.HoleCards)))
			}
		}
	}
	want := map[string][2]int{"": {0, 0}, "preflop": {0, 0}, "flop": {3, 1}, "turn": {4, 2}, "river": {5, 3}}
	if w, ok := want[gs.Status.Round]; ok {
		if len(gs.Status.Board) != w[0] || len(gs.Status.Burned) != w[1] {
			x.Violate("street-sizes:"+gs.Status.Round, "board / burn pile have the wrong size for the street", fmt.Sprintf("board %d burned %d", w[0], w[1]), fmt.Sprintf("board %d burned %d", len(gs.Status.Board), len(gs.Status.Burned)))
		}
	}
}

func prefixOf(a, b []string) bool {
	if len(a) > len(b) {
		return false
	}
	for i := range a {
		if a[i] != b[i] {
			return false
		}
	}
	return true
}

func (v *c14) OnStep(x *Ctx, s *St, op Op, post *pf.GameState) string {
	pre := s.GS
	if len(pre.Meta.Deck) != len(post.Meta.Deck) || !prefixOf(pre.Meta.Deck, post.Meta.Deck) {
		x.Violate("deck-changed", "the deck changed during the hand", strings.Join(pre.Meta.Deck, " "), strings.Join(post.Meta.Deck, " "), op)
	}
	if !prefixOf(pre.Status.Board, post.Status.Board) || !prefixOf(pre.Status.Burned, post.Status.Burned) {
		x.Violate("dealt-cards-changed", "board or burned cards dealt earlier changed", fmt.Sprint(pre.Status.Board, pre.Status.Burned), fmt.Sprint(post.Status.Board, post.Status.Burned), op)
	}
	for i := range pre.Players {
		if len(pre.Players[i].HoleCards) > 0 && !(len(pre.Players[i].HoleCards) == len(post.Players[i].HoleCards) && prefixOf(pre.Players[i].HoleCards, post.Players[i].HoleCards)) {
			x.Violate("hole-cards-changed", fmt.Sprintf("hole cards of seat %d changed after they were dealt", i), fmt.Sprint(pre.Players[i].HoleCards), fmt.Sprint(post.Players[i].HoleCards), op)
		}
	}
	if post.Status.CurrentDeckPosition < pre.Status.CurrentDeckPosition {
		x.Violate("cursor-moved-back", "the deck cursor moved backwards", fmt.Sprintf(">= %d", pre.Status.CurrentDeckPosition), fmt.Sprint(post.Status.CurrentDeckPosition), op)
	}
	return ""
}

// ---- shuffle ------------------------------------------------------------------

func sameMultiset(a, b []string) bool {
	if len(a) != len(b) {
		return false
	}
	x, y := append([]string{}, a...), append([]string{}, b...)
	sort.Strings(x)
	sort.Strings(y)
	for i := range x {
		if x[i] != y[i] {
			return false
		}
	}
	return true
}

// shuffleEnum runs pokerface.ShuffleCards (instrumented: math/rand -> explorer
// choices) on a deck of n cards for every answer sequence with at most bound
// non-default answers (bound < 0: all n! sequences).
func shuffleEnum(rep *explore.Report, deck []string, bound int, viaStart bool) {
	runtime.LockOSThread()
	defer runtime.UnlockOSThread()
	outcomes := map[string]bool{}
	execs, _ := explore.Deviations(bound, 0, func(ch *vrt.Chooser) {
		in := append([]string{}, deck...)
		var out []string
		explore.WithChooser(ch, func() {
			if viaStart {
				c := &Config{Bankroll: []int64{5, 5}, SB: 1, BB: 2, Limit: "no", Hole: 2, Table: "standard", Deck: "f52"}
				o := c.Options()
				o.Deck = in
				g := pf.NewGame(o)
				if err := g.Start(); err != nil {
					panic(err)
				}
				out = g.GetState().Meta.Deck
			} else {
				out = pf.ShuffleCards(in)
			}
		})
		outcomes[strings.Join(out, "")] = true
		if !sameMultiset(out, deck) {
			v := &explore.Violation{Property: "C14", Engine: "hand-shuffle", Signature: "shuffle-not-a-permutation",
				Message: "shuffling changed the set of cards", Expected: strings.Join(deck, " "), Observed: strings.Join(out, " "),
				Choices: ch.Choices(), Config: []byte(fmt.Sprintf(`{"deck":%q,"via_start":%v}`, strings.Join(deck, " "), viaStart))}
			v.Confirm = func() (bool, string) { return ReplayShuffle(v) }
			rep.Violation(v)
		}
	})
	rep.Add("shuffle_executions", int64(execs))
	rep.Add("shuffle_distinct_outcomes", int64(len(outcomes)))
	rep.Add("transitions", int64(execs))
	rep.Add("states", int64(len(outcomes)))
	rep.Add("traces_validated_against_impl", int64(execs))
}

// ReplayShuffle re-runs one recorded shuffle answer sequence.
func ReplayShuffle(v *explore.Violation) (bool, string) {
	var cfg struct {
		Deck     string `json:"deck"`
		ViaStart bool   `json:"via_start"`
	}
	if err := jsonUnmarshal(v.Config, &cfg); err != nil {
		return false, err.Error()
	}
	deck := strings.Fields(cfg.Deck)
	runtime.LockOSThread()
	defer runtime.UnlockOSThread()
	ch := vrt.NewChooser(v.Choices)
	var out []string
	explore.WithChooser(ch, func() { out = pf.ShuffleCards(append([]string{}, deck...)) })
	if !sameMultiset(out, deck) {
		return true, "shuffle result is not a permutation of the input"
	}
	return false, "shuffle result is a permutation"
}

// RunC14 explores the play grid with the dealing oracle, then enumerates the shuffle seam.
func RunC14(rep *explore.Report, tier string) {
	rep.Set("rule", "every reachable state of the play grid (decks of distinct tokens in factory, reversed, rotated and layout orders): visible cards == consumed deck prefix (as a collection; a burn precedes its street, hole cards precede the first burn), street sizes, prefix monotonicity on every transition; ShuffleCards through the rand seam: all n! answer sequences for n<=7 (also through Start()), all sequences with <=2 (quick, 52 cards: <=1) non-default answers for the 36- and 52-card decks; distinct_nontrivial = distinct shuffle outcomes + states with at least one card dealt")
	if RunScenes(rep, tier, Visitors["C14"], GridOpts{Property: "C14"}) {
		return
	}
	grid := PlayGrid(tier)
	RunGrid(rep, grid, Visitors["C14"], GridOpts{Property: "C14", MaxState: 3000000})
	// the same oracle on genuinely uninterrupted objects (no state cloning): keeps aliasing between the deck and dealt cards
	RunGrid(rep, ReplayGrid(tier), Visitors["C14"], GridOpts{Property: "C14", MaxState: 300000, Mode: "replay"})
	rep.Set("replay_mode_configurations", int64(len(ReplayGrid(tier))))
	for n := 0; n <= 7; n++ {
		shuffleEnum(rep, pf.NewStandardDeckCards()[:n], -1, false)
	}
	shuffleEnum(rep, pf.NewStandardDeckCards()[:6], -1, true)
	b36, b52 := 2, 1
	if tier == "thorough" {
		b52 = 2
	}
	shuffleEnum(rep, pf.NewShortDeckCards(), b36, false)
	shuffleEnum(rep, pf.NewStandardDeckCards(), b52, false)
	rep.Set("shuffle_deviation_bound_36_cards", int64(b36))
	rep.Set("shuffle_deviation_bound_52_cards", int64(b52))
	rep.Assumption("vrt.RandShuffle reproduces math/rand.Shuffle's documented call pattern: swap(i, j) for i = n-1..1 with 0 <= j <= i; the time-seeded real generator (2^63 seeds) is not enumerated")
	rep.Assumption("dealing never reads card values, so decks of distinct tokens in several orders exercise every positional dependency")
	rep.Set("distinct_nontrivial", rep.Get("shuffle_distinct_outcomes"))
	rep.Set("evaluations", rep.Get("transitions"))
}
