package hand

import (
	"fmt"
	"sort"
	"strings"

	pf "github.com/weedbox/pokerface"

	"verif/internal/explore"
)

func init() { Visitors["C11"] = func() Visitor { return &c11{} } }

// c11: offered actions fit the betting situation, and each accepted action does what it says.
type c11 struct{ Base }

// satAdd adds non-negative-ish amounts without wrapping around.
func satAdd(a, b int64) int64 {
	c := a + b
	if a > 0 && b > 0 && c < 0 {
		return 1<<63 - 1
	}
	if a < 0 && b < 0 && c >= 0 {
		return -1 << 63
	}
	return c
}

func has(l []string, a string) bool {
	for _, x := range l {
		if x == a {
			return true
		}
	}
	return false
}

func (v *c11) OnState(x *Ctx, s *St) {
	gs := s.GS
	if gs.Status.CurrentEvent != "RoundStarted" {
		return
	}
	cur := gs.Status.CurrentPlayer
	if cur < 0 || cur >= len(gs.Players) {
		return
	}
	p := gs.Players[cur]
	acts := p.AllowedActions
	W, R, M := gs.Status.CurrentWager, gs.Status.PreviousRaiseSize, gs.Status.MiniBet
	S := p.InitialStackSize
	x.Run.Count("offer_states_checked", 1)
	sorted := append([]string{}, acts...)
	sort.Strings(sorted)
	x.Run.Count("offer:"+strings.Join(sorted, "+"), 1)
	bad := func(sig, msg, exp string) {
		x.Violate("offer:"+sig, fmt.Sprintf("seat %d (stack at round start %d, wagered %d) facing wager %d, min raise %d, min bet %d: %s", cur, S, p.Wager, W, R, M, msg), exp, fmt.Sprint(acts))
	}
	if p.Fold || p.StackSize == 0 {
		if !(len(acts) == 1 && acts[0] == "pass") {
			bad("pass-only", "a folded or all-in seat is only asked to pass", "[pass]")
		}
		return
	}
	facing := p.Wager < W
	if !has(acts, "allin") {
		bad("allin-missing", "a player to act with chips is always offered all-in", "allin offered")
	}
	if has(acts, "pass") {
		bad("pass-to-active", "pass is only for folded or all-in seats", "no pass")
	}
	if has(acts, "fold") != facing {
		bad("fold", "fold is offered exactly when facing a higher wager", fmt.Sprintf("fold offered = %v", facing))
	}
	if has(acts, "check") != !facing {
		bad("check", "check is offered exactly when not facing a higher wager", fmt.Sprintf("check offered = %v", !facing))
	}
	if facing && S > W && !has(acts, "call") {
		bad("call-missing", "call must be offered when the wager can be covered with chips to spare", "call offered")
	}
	if !facing && has(acts, "call") {
		bad("call-not-facing", "call is never offered when not facing a wager", "no call")
	}
	if W == 0 && S >= M && !has(acts, "bet") {
		bad("bet-missing", "bet must be offered when nobody has wagered and the player holds the minimum bet", "bet offered")
	}
	if W > 0 && has(acts, "bet") {
		bad("bet-with-wager", "bet is never offered when a wager stands", "no bet")
	}
	if W > 0 && S > satAdd(W, R) && S >= M && !has(acts, "raise") {
		bad("raise-missing", "raise must be offered when a wager stands and the player holds more than the minimum raise and at least the minimum bet", "raise offered")
	}
	if W == 0 && has(acts, "raise") {
		bad("raise-without-wager", "raise is never offered when nobody has wagered", "no raise")
	}
}

func (v *c11) OnStep(x *Ctx, s *St, op Op, post *pf.GameState) string {
	pre := s.GS
	if pre.Status.CurrentEvent != "RoundStarted" || !actionKinds[op.Kind] {
		return ""
	}
	c := pre.Status.CurrentPlayer
	if c < 0 || c >= len(pre.Players) {
		return ""
	}
	a, b := pre.Players[c], post.Players[c]
	x.Run.Count("action_postconditions_checked", 1)
	switch op.Kind {
	case "Check", "Fold", "Pass":
		for i := range pre.Players {
			p, q := pre.Players[i], post.Players[i]
			if p.Wager != q.Wager || p.StackSize != q.StackSize || p.Pot != q.Pot {
				x.Violate("moves-chips:"+op.Kind, fmt.Sprintf("%s moved chips of seat %d", op.Kind, i), fmt.Sprintf("wager %d stack %d pot %d", p.Wager, p.StackSize, p.Pot), fmt.Sprintf("wager %d stack %d pot %d", q.Wager, q.StackSize, q.Pot), op)
			}
		}
		if pre.Status.CurrentRoundPot != post.Status.CurrentRoundPot {
			x.Violate("moves-chips:"+op.Kind, op.Kind+" changed the round pot", fmt.Sprint(pre.Status.CurrentRoundPot), fmt.Sprint(post.Status.CurrentRoundPot), op)
		}
	case "Call":
		// level with the wager to match; a wager below the configured big blind (a short
		// big blind, a tiny bet) is completed to the big blind by the engine's rule
		target := pre.Status.CurrentWager
		if bb := x.Run.Cfg.BB; target < bb {
			target = bb
		}
		if !(b.StackSize == 0 || b.Wager == pre.Status.CurrentWager || b.Wager == target) {
			x.Violate("call-not-level", "after a call the caller is neither level with the wager to match nor all-in", fmt.Sprintf("wager %d (or the big blind %d)", pre.Status.CurrentWager, x.Run.Cfg.BB), fmt.Sprintf("wager %d stack %d", b.Wager, b.StackSize), op)
		}
	case "Bet":
		if op.Arg > 0 && op.Arg < a.StackSize {
			if !(post.Status.CurrentWager == op.Arg && b.Wager == op.Arg) {
				x.Violate("bet-not-exact", "a bet of a positive amount below the stack must become exactly the wager to match", fmt.Sprint(op.Arg), fmt.Sprintf("wager to match %d, own wager %d", post.Status.CurrentWager, b.Wager), op)
			}
		}
	case "Allin":
		if !(b.StackSize == 0 && b.Wager-a.Wager == a.StackSize) {
			x.Violate("allin-not-exact", "all-in must commit exactly the remaining stack", fmt.Sprintf("stack 0, wager +%d", a.StackSize), fmt.Sprintf("stack %d, wager +%d", b.StackSize, b.Wager-a.Wager), op)
		}
	}
	return ""
}

// RunC11 explores the play grid with the offer table and action post-conditions.
func RunC11(rep *explore.Report, tier string) {
	rep.Set("rule", "every RoundStarted state of the play grid: offered actions against the situation table; every accepted action: its post-condition; distinct_nontrivial = distinct offered-action sets observed")
	if RunScenes(rep, tier, Visitors["C11"], GridOpts{Property: "C11"}) {
		return
	}
	RunGrid(rep, PlayGrid(tier), Visitors["C11"], GridOpts{Property: "C11", MaxState: 3000000})
	// the same oracle on genuinely uninterrupted objects (pure replay, no state cloning)
	RunGrid(rep, ReplayGrid(tier), Visitors["C11"], GridOpts{Property: "C11", MaxState: 300000, Mode: "replay"})
	n := int64(0)
	for k := range rep.Cov {
		if strings.HasPrefix(k, "offer:") {
			n++
		}
	}
	rep.Set("distinct_nontrivial", n)
	rep.Set("evaluations", rep.Get("offer_states_checked")+rep.Get("action_postconditions_checked"))
}
