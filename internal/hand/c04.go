package hand

import (
	"bytes"
	"fmt"
	"math"

	pf "github.com/weedbox/pokerface"

	"verif/internal/explore"
)

func init() { Visitors["C04"] = func() Visitor { return &c04{} } }

// c04: exactly one seat is offered actions, in clockwise order from the right
// first seat; every operation by anyone else / not offered / in the wrong
// phase is refused with an error and changes nothing.
type c04 struct{ Base }

func firstActor(c *Config, round string) int {
	n := c.Seats()
	if round == "preflop" {
		return (c.SeatOf("bb") + 1) % n // heads-up: the dealer (who is the small blind)
	}
	return (c.SeatOf("dealer") + 1) % n
}

func (v *c04) OnState(x *Ctx, s *St) {
	gs := s.GS
	if gs.Status.CurrentEvent == "RoundStarted" {
		cur := gs.Status.CurrentPlayer
		offered := 0
		for _, p := range gs.Players {
			if len(p.AllowedActions) > 0 {
				offered++
				if p.Idx != cur {
					x.Violate("offered-to-non-current", fmt.Sprintf("seat %d is offered actions but seat %d is the player to act", p.Idx, cur), "only the current player", fmt.Sprint(p.AllowedActions))
				}
			}
		}
		if offered != 1 {
			x.Violate("not-exactly-one-offered", "during a betting round exactly one player must be offered actions", "1", fmt.Sprint(offered))
		}
		if cur >= 0 && cur < len(gs.Players) {
			p := gs.Players[cur]
			if (p.Fold || p.StackSize == 0) && !(len(p.AllowedActions) == 1 && p.AllowedActions[0] == "pass") {
				x.Violate("folded-or-allin-not-pass-only", fmt.Sprintf("seat %d is folded or all-in but is offered %v", cur, p.AllowedActions), "[pass]", fmt.Sprint(p.AllowedActions))
			}
		}
	}
	if x.violated {
		return
	}
	v.probes(x, s)
}

func (v *c04) OnStep(x *Ctx, s *St, op Op, post *pf.GameState) string {
	if post.Status.CurrentEvent != "RoundStarted" {
		return ""
	}
	n := len(post.Players)
	want := -1
	why := ""
	if s.GS.Status.CurrentEvent == "RoundStarted" {
		want = (s.GS.Status.CurrentPlayer + 1) % n
		why = "turn passes to the next seat clockwise"
	} else {
		want = firstActor(x.Run.Cfg, post.Status.Round)
		why = "first to act on " + post.Status.Round
	}
	if post.Status.CurrentPlayer != want {
		sig := "turn-order"
		if s.GS.Status.CurrentEvent != "RoundStarted" {
			sig = "first-actor:" + post.Status.Round
		}
		x.Violate(sig, why, fmt.Sprintf("seat %d", want), fmt.Sprintf("seat %d", post.Status.CurrentPlayer), op)
	}
	x.Run.Count("turn_transitions_checked", 1)
	return ""
}

// probeAmounts: representatives for amount-taking probes.
func probeAmounts(gs *pf.GameState, seat int) []int64 {
	var S int64 = 1
	if seat >= 0 && seat < len(gs.Players) {
		S = gs.Players[seat].InitialStackSize
	}
	W, R, M := gs.Status.CurrentWager, gs.Status.PreviousRaiseSize, gs.Status.MiniBet
	set := map[int64]bool{}
	var out []int64
	for _, a := range []int64{-1, 0, 1, M, W, W + R, S, math.MaxInt64} {
		if !set[a] {
			set[a] = true
			out = append(out, a)
		}
	}
	return out
}

func (v *c04) probes(x *Ctx, s *St) {
	gs := s.GS
	ev := gs.Status.CurrentEvent
	cur := gs.Status.CurrentPlayer
	var ops []Op
	offered := map[string]bool{}
	if ev == "RoundStarted" && cur >= 0 && cur < len(gs.Players) {
		for _, a := range gs.Players[cur].AllowedActions {
			offered[a] = true
		}
	}
	kinds := []struct{ kind, name string }{{"Pass", "pass"}, {"Fold", "fold"}, {"Check", "check"}, {"Call", "call"}, {"Allin", "allin"}, {"Bet", "bet"}, {"Raise", "raise"}, {"Pay", "pay"}}
	for seat := range gs.Players {
		for _, k := range kinds {
			if ev == "RoundStarted" && seat == cur && offered[k.name] {
				continue // legitimately available: explored as a real transition
			}
			if amountOps[k.kind] {
				for _, a := range probeAmounts(gs, seat) {
					ops = append(ops, Op{Kind: k.kind, Arg: a, Seat: seat})
				}
			} else {
				ops = append(ops, Op{Kind: k.kind, Seat: seat})
			}
		}
		if ev != "AnteRequested" {
			ops = append(ops, Op{Kind: "PayAnte", Seat: seat})
		}
		if ev != "BlindsRequested" {
			ops = append(ops, Op{Kind: "PayBlinds", Seat: seat})
		}
	}
	// the same through the Game interface (acts for the current seat)
	if ev != "RoundStarted" {
		for _, k := range kinds {
			if amountOps[k.kind] {
				ops = append(ops, Op{Kind: k.kind, Arg: 1, Seat: -1})
			} else {
				ops = append(ops, Op{Kind: k.kind, Seat: -1})
			}
		}
	}
	expected := WaitPoints[ev]
	for _, t := range []string{"ReadyForAll", "PayAnte", "PayBlinds", "Next"} {
		if t != expected {
			ops = append(ops, Op{Kind: t, Seat: -1})
		}
	}
	if len(ops) == 0 {
		return
	}
	before := StateJSON(gs)
	same := func(g pf.Game) bool {
		after := g.GetState()
		return bytes.Equal(before, StateJSON(after))
	}
	classify := func(op Op) string {
		switch {
		case op.Seat < 0 && (op.Kind == "ReadyForAll" || op.Kind == "PayAnte" || op.Kind == "PayBlinds" || op.Kind == "Next"):
			return "table-op-wrong-phase"
		case op.Kind == "PayAnte" || op.Kind == "PayBlinds":
			return "seat-forced-bet-wrong-phase"
		case ev != "RoundStarted":
			return "action-wrong-phase"
		case op.Seat == cur:
			return "not-offered"
		}
		return "another-seat"
	}
	report := func(op Op, bad string, err error, p string, changed bool) {
		x.Report(fmt.Sprintf("probe:%s:%s:%s", classify(op), op.Kind, bad),
			fmt.Sprintf("%s at %s (current player %d) must be refused with an error and leave the state unchanged", op.Label(), ev, cur),
			"error, state unchanged", fmt.Sprintf("err=%v panic=%v state changed=%v", err, p != "", changed), op)
	}
	// All probes run in sequence on one object. The state is compared after
	// every probe that returned no error, and once after the whole batch; only
	// if the batch left a trace are the refused probes re-run one by one, each
	// on a pristine object, to find which of them changed the state.
	g := x.Fresh(s)
	var refused []Op
	for _, op := range ops {
		err, p := Apply(g, op)
		x.Run.Count("refusal_probes", 1)
		switch {
		case p != "":
			report(op, "panic", nil, p, false)
			g = x.Fresh(s)
		case err == nil:
			if same(g) {
				report(op, "no-error", nil, "", false)
			} else {
				report(op, "accepted", nil, "", true)
				g = x.Fresh(s)
			}
		default:
			refused = append(refused, op)
		}
	}
	if !same(g) {
		for _, op := range refused {
			g1 := x.Fresh(s)
			err, p := Apply(g1, op)
			if p == "" && err != nil && !same(g1) {
				report(op, "error-but-state-changed", err, "", true)
			}
		}
	}
}

// RunC04 explores the play grid with the turn-order oracle and refusal probes.
func RunC04(rep *explore.Report, tier string) {
	rep.Set("rule", "every reachable state of the play grid; at each: who is offered actions and the turn-order relation on every transition, plus refusal probes (every action kind with representative amounts by every seat that is not to act, every action not offered to the seat to act, every table operation and per-seat forced bet outside its phase, everything at GameClosed); distinct_nontrivial = betting states whose offer/turn structure was checked")
	if RunScenes(rep, tier, Visitors["C04"], GridOpts{Property: "C04"}) {
		return
	}
	RunGrid(rep, PlayGrid(tier), Visitors["C04"], GridOpts{Property: "C04", CrossN: 0, MaxState: 3000000})
	// the same oracle on genuinely uninterrupted objects (pure replay, no state cloning)
	RunGrid(rep, ReplayGrid(tier), Visitors["C04"], GridOpts{Property: "C04", MaxState: 300000, Mode: "replay"})
	rep.Set("distinct_nontrivial", rep.Get("turn_transitions_checked"))
	rep.Set("evaluations", rep.Get("transitions")+rep.Get("refusal_probes"))
}
