package hand

import (
	"fmt"
	"strings"
	"verif/internal/explore"

	pf "github.com/weedbox/pokerface"
)

func init() { Visitors["C01"] = func() Visitor { return &c01{} } }

// c01: chip conservation at every state, zero-sum settlement at the end.
type c01 struct{ Base }

// causeTag classifies a history by the kind of input it contains, so that a
// known root cause keeps one signature and anything else gets another.
func causeTag(hist []string) string {
	for _, l := range hist {
		if strings.HasPrefix(l, "Bet(-") || strings.HasPrefix(l, "Raise(-") || strings.HasPrefix(l, "Pay(-") {
			return "after-negative-amount"
		}
	}
	return "plain"
}

// tagOf computes the cause tag of the current history (only on the failure path).
func tagOf(x *Ctx, extra ...Op) string {
	hist := x.History()
	for _, o := range extra {
		hist = append(hist, o.Label())
	}
	return causeTag(hist)
}

func chipIdentities(x *Ctx, gs *pf.GameState, extra ...Op) {
	var sumW int64
	for _, p := range gs.Players {
		if p.Bankroll != p.StackSize+p.Wager+p.Pot {
			x.Violate("bankroll-identity:"+tagOf(x, extra...), fmt.Sprintf("seat %d: bankroll != stack + wager + pot", p.Idx),
				fmt.Sprintf("bankroll %d", p.Bankroll), fmt.Sprintf("stack %d + wager %d + pot %d", p.StackSize, p.Wager, p.Pot), extra...)
		}
		if p.StackSize < 0 || p.Wager < 0 || p.Pot < 0 {
			x.Violate("negative-chips:"+tagOf(x, extra...), fmt.Sprintf("seat %d: negative stack, wager or pot", p.Idx), ">= 0",
				fmt.Sprintf("stack %d wager %d pot %d", p.StackSize, p.Wager, p.Pot), extra...)
		}
		sumW += p.Wager
	}
	if gs.Status.CurrentRoundPot != sumW {
		x.Violate("round-pot:"+tagOf(x, extra...), "round pot shown differs from the wagers on the table", fmt.Sprint(sumW), fmt.Sprint(gs.Status.CurrentRoundPot), extra...)
	}
}

func potsPublished(x *Ctx, gs *pf.GameState, where string, extra ...Op) {
	var sumIn, sumPots int64
	for _, p := range gs.Players {
		sumIn += p.Wager + p.Pot
	}
	for _, p := range gs.Status.Pots {
		sumPots += p.Total
	}
	if sumIn != sumPots {
		x.Violate("pots-sum:"+where+":"+tagOf(x, extra...), "published pots do not add up to what the players put in", fmt.Sprint(sumIn), fmt.Sprint(sumPots), extra...)
	}
}

func (c *c01) OnState(x *Ctx, s *St) {
	gs := s.GS
	chipIdentities(x, gs)
	switch gs.Status.CurrentEvent {
	case "RoundClosed":
		potsPublished(x, gs, "round-closed")
	case "GameClosed":
		potsPublished(x, gs, "game-closed")
		c.terminal(x, gs)
	}
}

func (c *c01) OnStep(x *Ctx, s *St, op Op, post *pf.GameState) string {
	if op.Kind == "PayAnte" {
		potsPublished(x, post, "after-ante", op)
	}
	return ""
}

func (c *c01) terminal(x *Ctx, gs *pf.GameState) {
	x.Run.Count("closed_hands_checked", 1)
	tag := func() string { return tagOf(x) }
	if gs.Result == nil {
		x.Violate("no-result:"+tag(), "closed hand has no settlement result", "result", "nil")
		return
	}
	var sum int64
	seen := map[int]bool{}
	for _, pr := range gs.Result.Players {
		sum += pr.Changed
		seen[pr.Idx] = true
		if pr.Idx < 0 || pr.Idx >= len(gs.Players) {
			x.Violate("result-unknown-seat:"+tag(), "result names a seat that does not exist", "", fmt.Sprint(pr.Idx))
			continue
		}
		p := gs.Players[pr.Idx]
		if pr.Final != p.Bankroll+pr.Changed {
			x.Violate("final-identity:"+tag(), fmt.Sprintf("seat %d: final != bankroll + changed", pr.Idx), fmt.Sprint(p.Bankroll+pr.Changed), fmt.Sprint(pr.Final))
		}
		if pr.Final < 0 {
			x.Violate("final-negative:"+tag(), fmt.Sprintf("seat %d: negative final stack", pr.Idx), ">= 0", fmt.Sprint(pr.Final))
		}
		if -pr.Changed > p.Pot+p.Wager {
			x.Violate("lost-more-than-put-in:"+tag(), fmt.Sprintf("seat %d loses more than it put in", pr.Idx), fmt.Sprintf("<= %d", p.Pot+p.Wager), fmt.Sprint(-pr.Changed))
		}
	}
	if len(seen) != len(gs.Players) {
		x.Violate("result-missing-seat:"+tag(), "result does not cover every seat", fmt.Sprint(len(gs.Players)), fmt.Sprint(len(seen)))
	}
	if sum != 0 {
		x.Violate("not-zero-sum:"+tag(), "per-player changes do not sum to zero", "0", fmt.Sprint(sum))
	}
}

// RunC01 explores the play grid with the chip-conservation oracle.
func RunC01(rep *explore.Report, tier string) {
	rep.Set("rule", "every reachable state of every configuration of the play grid under the full alphabet (expected table operation; every offered action with every amount argument); distinct_nontrivial = distinct closed hands (terminal states) whose settlement was checked")
	if RunScenes(rep, tier, Visitors["C01"], GridOpts{Property: "C01"}) {
		return
	}
	RunGrid(rep, PlayGrid(tier), Visitors["C01"], GridOpts{Property: "C01", CrossN: 97, MaxState: 3000000})
	// the same oracle on genuinely uninterrupted objects (pure replay, no state cloning)
	RunGrid(rep, ReplayGrid(tier), Visitors["C01"], GridOpts{Property: "C01", MaxState: 300000, Mode: "replay"})
	rep.Set("distinct_nontrivial", rep.Get("terminal_states"))
	rep.Set("evaluations", rep.Get("transitions"))
}
