package hand

import (
	"fmt"
	"os"
	"runtime"
	"sort"
	"strconv"
	"sync"
	"time"

	"verif/internal/explore"
)

// GridOpts controls how a list of configurations is explored.
type GridOpts struct {
	Property string
	MaxState int           // per configuration
	Budget   time.Duration // wall-clock budget for the whole grid (0 = none); hitting it => exhaustive:false
	CrossN   int
	Edges    bool
	Mode     string
	After    func(r *Run) // called after each configuration (same goroutine)
}

func estimate(c *Config) int64 {
	var sum int64 = 1
	for _, b := range c.Bankroll {
		sum += b
	}
	e := sum
	for i := 0; i < c.Seats(); i++ {
		e *= 6
	}
	if c.Amounts == "all" {
		e *= 4
	}
	return e
}

// RunGrid explores every configuration (largest first), configurations in
// parallel, and merges coverage into rep.
func RunGrid(rep *explore.Report, cfgs []*Config, mk func() Visitor, o GridOpts) {
	sort.SliceStable(cfgs, func(i, j int) bool { return estimate(cfgs[i]) > estimate(cfgs[j]) })
	mode := o.Mode
	if mode == "" {
		mode = "clone"
		if ok, why := CloneGuard(); !ok {
			// the game object holds state that LoadState may not rebuild: explore twice - genuinely
			// uninterrupted objects (pure replay, time-boxed), and objects rebuilt from their state before
			// every call, which is how the stateless table backend uses the engine
			rep.Set("accelerator", "guard failed: "+why+"; explored in pure replay mode (10 min budget) and again with the game rebuilt from its state before every call")
			o2 := o
			o2.Mode = "replay"
			if o2.Budget == 0 {
				o2.Budget = 10 * time.Minute
			}
			RunGrid(rep, append([]*Config{}, cfgs...), mk, o2)
			o3 := o
			o3.Mode = "clone"
			RunGrid(rep, cfgs, mk, o3)
			return
		} else {
			rep.Set("accelerator", "clone mode: successor = deep copy of the live state (unserialised fields included) + NewGameFromState + one operation; guarded by a struct-shape check and cross-checked against genuine replays")
		}
	}
	var deadline time.Time
	if o.Budget > 0 {
		deadline = time.Now().Add(o.Budget)
	}
	par := runtime.NumCPU()
	if v, err := strconv.Atoi(os.Getenv("VERIF_PAR")); err == nil && v > 0 {
		par = v
	}
	var afterMu sync.Mutex
	runOne := func(c *Config, workers int) {
		if !deadline.IsZero() && time.Now().After(deadline) {
			rep.Cap("time budget reached before configuration " + c.Short())
			rep.Add("configurations_skipped", 1)
			return
		}
		r := &Run{Cfg: c, Rep: rep, Vis: mk(), Property: o.Property, Mode: mode, Workers: workers,
			MaxState: o.MaxState, Deadline: deadline, CrossN: o.CrossN, Edges: o.Edges}
		t0 := time.Now()
		r.Explore()
		if os.Getenv("VERIF_VERBOSE") != "" {
			fmt.Fprintf(os.Stderr, "%8.2fs states=%d w=%d %s\n", time.Since(t0).Seconds(), r.States(), workers, c.Short())
		}
		if o.After != nil {
			afterMu.Lock()
			o.After(r)
			afterMu.Unlock()
		}
	}
	// phase 1: the few largest configurations one after the other, all cores inside each
	big := 0
	if len(cfgs) > 0 {
		top := estimate(cfgs[0])
		for big < len(cfgs) && big < 8 && estimate(cfgs[big])*3 >= top {
			big++
		}
		if len(cfgs) <= par {
			big = len(cfgs)
		}
	}
	for _, c := range cfgs[:big] {
		runOne(c, par)
	}
	// phase 2: the rest in parallel, one core each
	ch := make(chan *Config)
	var wg sync.WaitGroup
	for w := 0; w < par; w++ {
		wg.Add(1)
		go func() {
			defer wg.Done()
			for c := range ch {
				runOne(c, 1)
			}
		}()
	}
	for _, c := range cfgs[big:] {
		ch <- c
	}
	close(ch)
	wg.Wait()
	if len(cfgs) > 0 {
		rep.Sample(map[string]any{"configuration": cfgs[0], "note": "largest configuration of the grid"})
		rep.Sample(map[string]any{"configuration": cfgs[len(cfgs)/2]})
	}
}

func numCPU() int {
	par := runtime.NumCPU()
	if v, err := strconv.Atoi(os.Getenv("VERIF_PAR")); err == nil && v > 0 {
		par = v
	}
	return par
}
