package hand

import (
	"fmt"
	"os"
	"runtime"
	"sort"
	"strconv"
	"sync"
	"time"

	"verif/internal/explore"
)

// GridOpts controls how a list of configurations is explored.
type GridOpts struct {
	Property string
	MaxState int           // per configuration
	Budget   time.Duration // wall-clock budget for the whole grid (0 = none); hitting it => exhaustive:false
	CrossN   int
	Edges    bool
	Mode     string
	After    func(r *Run) // called after each configuration (same goroutine)
}

func estimate(c *Config) int64 {
	var sum int64 = 1
	for _, b := range c.Bankroll {
		if b > 30 {
			b = 30 // beyond that the stack depth in big blinds matters, not the number
		}
		sum += b
	}
	e := sum
	for i := 0; i < c.Seats(); i++ {
		e *= 6
	}
	if c.Amounts == "all" {
		e *= 4
	}
	return e
}

// RunGrid explores every configuration (largest first), configurations in
// parallel, and merges coverage into rep.
func RunGrid(rep *explore.Report, cfgs []*Config, mk func() Visitor, o GridOpts) {
	sort.SliceStable(cfgs, func(i, j int) bool { return estimate(cfgs[i]) > estimate(cfgs[j]) })
	mode := o.Mode
	if mode == "" {
		mode = "clone"
		if ok, why := CloneGuard(); !ok {
			// the game object holds state that LoadState may not rebuild: explore twice - genuinely
			// uninterrupted objects (pure replay, time-boxed), and objects rebuilt from their state before
			// every call, which is how the stateless table backend uses the engine
			rep.Set("accelerator", "guard failed: "+why+"; explored in pure replay mode (10 min budget) and again with the game rebuilt from its state before every call")
			o2 := o
			o2.Mode = "replay"
			if o2.Budget == 0 {
				o2.Budget = 10 * time.Minute
			}
			RunGrid(rep, append([]*Config{}, cfgs...), mk, o2)
			o3 := o
			o3.Mode = "clone"
			RunGrid(rep, cfgs, mk, o3)
			return
		} else {
			rep.Set("accelerator", "clone mode: successor = deep copy of the live state (unserialised fields included) + NewGameFromState + one operation; guarded by a struct-shape check and cross-checked against genuine replays")
		}
	}
	var deadline time.Time
	if o.Budget > 0 {
		deadline = time.Now().Add(o.Budget)
	}
	par := runtime.NumCPU()
	if v, err := strconv.Atoi(os.Getenv("VERIF_PAR")); err == nil && v > 0 {
		par = v
	}
	var afterMu sync.Mutex
	runOne := func(c *Config, workers int) {
		if !deadline.IsZero() && time.Now().After(deadline) {
			rep.Cap("time budget reached before configuration " + c.Short())
			rep.Add("configurations_skipped", 1)
			return
		}
		m := mode
		if c.Scene != nil {
			m = "replay" // what a scene is about lives outside the game state: never fork by cloning
		}
		r := &Run{Cfg: c, Rep: rep, Vis: mk(), Property: o.Property, Mode: m, Workers: workers,
			MaxState: o.MaxState, Deadline: deadline, CrossN: o.CrossN, Edges: o.Edges}
		t0 := time.Now()
		r.Explore()
		if os.Getenv("VERIF_VERBOSE") != "" {
			fmt.Fprintf(os.Stderr, "%8.2fs states=%d w=%d %s\n", time.Since(t0).Seconds(), r.States(), workers, c.Short())
		}
		if o.After != nil {
			afterMu.Lock()
			o.After(r)
			afterMu.Unlock()
		}
	}
	// phase 1: the few largest configurations one after the other, all cores inside each
	big := 0
	if len(cfgs) > 0 {
		top := estimate(cfgs[0])
		for big < len(cfgs) && big < 8 && estimate(cfgs[big])*3 >= top {
			big++
		}
		if len(cfgs) <= par {
			big = len(cfgs)
		}
	}
	for _, c := range cfgs[:big] {
		runOne(c, par)
	}
	// phase 2: the rest in parallel, one core each
	ch := make(chan *Config)
	var wg sync.WaitGroup
	for w := 0; w < par; w++ {
		wg.Add(1)
		go func() {
			defer wg.Done()
			for c := range ch {
				runOne(c, 1)
			}
		}()
	}
	for _, c := range cfgs[big:] {
		ch <- c
	}
	close(ch)
	wg.Wait()
	if len(cfgs) > 0 {
		rep.Sample(map[string]any{"configuration": cfgs[0], "note": "largest configuration of the grid"})
		rep.Sample(map[string]any{"configuration": cfgs[len(cfgs)/2]})
	}
}

// RunScenes explores the scene grid (see scene.go) before anything else, one configuration after
// the other on one worker: nothing else touches the process while a scene is explored, so whatever
// the library shares between objects is seen exactly as the scene arranges it. It reports whether a
// violation was recorded (the caller then skips the rest: with process-wide state corrupted the
// parallel exploration would only add unreproducible noise).
func RunScenes(rep *explore.Report, tier string, mk func() Visitor, o GridOpts) bool {
	before := rep.ViolationCount()
	cfgs := SceneGrid(tier)
	for _, c := range cfgs {
		r := &Run{Cfg: c, Rep: rep, Vis: mk(), Property: o.Property, Mode: "replay", Workers: 1,
			MaxState: 300000, Edges: o.Edges}
		t0 := time.Now()
		r.Explore()
		if os.Getenv("VERIF_VERBOSE") != "" {
			fmt.Fprintf(os.Stderr, "%8.2fs states=%d scene %s\n", time.Since(t0).Seconds(), r.States(), c.Short())
		}
		if o.After != nil {
			o.After(r)
		}
		rep.Add("scene_configurations", 1)
		rep.Add("scene_states", r.States())
	}
	rep.Set("scenes", "every history of "+strconv.Itoa(len(cfgs))+" (hand, scene) pairs: the hand under test played beside a second live game of the same process (replayed after every accepted operation), created from an options object that another game was created from and played to showdown before, on a game object that was used for another hand before (ApplyOptions + Start), and on a used object that received the hand through LoadState; no state cloning")
	sceneCoverage(rep)
	if rep.ViolationCount() > before {
		rep.Cap("a scene configuration violated the property: the rest of the check was skipped")
		return true
	}
	return false
}

func sceneCoverage(rep *explore.Report) {
	rep.Set("scene_other_hand_operations_accepted", otherAccepted.Load())
	rep.Set("scene_other_hand_operations_refused", otherRefused.Load())
	if m := otherFirstRefusal.Load(); m != nil {
		rep.Set("scene_other_hand_first_refusal", *m)
	}
}

func numCPU() int {
	par := runtime.NumCPU()
	if v, err := strconv.Atoi(os.Getenv("VERIF_PAR")); err == nil && v > 0 {
		par = v
	}
	return par
}
