package hand

// Configuration grids. Every grid is enumerated in full, never sampled.

func cfg(br []int64, ante, sb, bb, db int64, dead bool, btn int, limit, deck string, hole, req int, table, amounts string) *Config {
	return &Config{Bankroll: br, Ante: ante, SB: sb, BB: bb, DealerBlind: db, DeadSB: dead, Button: btn, Limit: limit, Deck: deck, Hole: hole, Required: req, Table: table, Amounts: amounts}
}

// vectors returns all vectors of length n over vals.
func vectors(n int, vals []int64) [][]int64 {
	if n == 0 {
		return [][]int64{{}}
	}
	var out [][]int64
	for _, rest := range vectors(n-1, vals) {
		for _, v := range vals {
			out = append(out, append(append([]int64{}, rest...), v))
		}
	}
	return out
}

func uniq(vals []int64) []int64 {
	seen := map[int64]bool{}
	var out []int64
	for _, v := range vals {
		if v > 0 && !seen[v] {
			seen[v] = true
			out = append(out, v)
		}
	}
	return out
}

// PlayGrid is the shared grid of full-action configurations for the hand
// explorer (C01, C04, C05, C06, C11, C12, C14, C15 and the in-play parts of
// C02, C10, C16).
func PlayGrid(tier string) []*Config {
	var out []*Config
	add := func(c *Config) { out = append(out, c) }

	// (A) heads-up and 3-handed, every integer amount, stacks on the forced-bet thresholds.
	for _, blinds := range [][3]int64{{1, 2, 0}, {2, 2, 0}, {1, 3, 0}, {1, 2, 3}} {
		sb, bb, db := blinds[0], blinds[1], blinds[2]
		for _, ante := range []int64{0, 1} {
			th := uniq([]int64{1, ante, ante + sb, ante + bb, ante + bb + 1, ante + 2*bb + 1, 7})
			for _, br := range vectors(2, th) {
				add(cfg(br, ante, sb, bb, db, false, 0, "no", "f52", 2, 0, "standard", "all"))
			}
		}
	}
	th3 := []int64{1, 2, 3, 6}
	for _, br := range vectors(3, th3) {
		for btn := 0; btn < 3; btn++ {
			if btn > 0 && !(br[0] != br[1] || br[1] != br[2]) {
				continue // rotation of a uniform vector adds nothing
			}
			add(cfg(br, 0, 1, 2, 0, false, btn, "no", "sv:1,1,0", 2, 0, "standard", "all"))
		}
	}
	// big blind of 3: a short big blind or a tiny bet can be below the big blind while a caller holds less than the completion
	for _, br := range vectors(3, []int64{1, 2, 4}) {
		add(cfg(br, 0, 1, 3, 0, false, 0, "no", "sv:0,1,1", 2, 0, "standard", "all"))
	}
	for _, br := range vectors(3, []int64{2, 5}) {
		add(cfg(br, 1, 2, 5, 0, false, 1, "no", "sv:1,0,1", 2, 0, "standard", "classes"))
	}
	// ante + dead small blind + dealer blind + pot limit, 3-handed
	for _, br := range vectors(3, []int64{1, 3, 7}) {
		add(cfg(br, 1, 1, 2, 0, false, 0, "no", "sv:0,2,2", 2, 0, "standard", "all"))
		add(cfg(br, 0, 1, 2, 0, true, 1, "no", "sv:2,0,1", 2, 0, "standard", "all"))
		add(cfg(br, 0, 1, 2, 3, false, 2, "no", "f52", 2, 0, "standard", "all"))
		add(cfg(br, 0, 1, 2, 0, false, 0, "pot", "r52", 2, 0, "standard", "all"))
	}
	// degenerate blind structures
	for _, br := range vectors(3, []int64{2, 5}) {
		add(cfg(br, 0, 0, 2, 0, false, 0, "no", "sv:1,0,1", 2, 0, "standard", "all"))
		add(cfg(br, 1, 0, 0, 0, false, 1, "no", "f52", 2, 0, "standard", "all"))
		add(cfg(br, 0, 0, 0, 2, false, 2, "no", "sv:0,0,0", 2, 0, "standard", "all"))
	}
	for _, br := range vectors(2, []int64{1, 3, 4}) {
		add(cfg(br, 0, 0, 2, 0, false, 0, "no", "f52", 2, 0, "standard", "all"))
		add(cfg(br, 0, 0, 0, 0, false, 1, "no", "f52", 2, 0, "standard", "all"))
	}
	// options with a zero burn count (the engine burns one card per street regardless)
	for _, br := range vectors(2, []int64{2, 5}) {
		c := cfg(br, 0, 1, 2, 0, false, 0, "no", "t52", 2, 0, "standard", "all")
		c.BurnZero = true
		add(c)
	}
	{
		c := cfg([]int64{3, 5, 4}, 1, 1, 2, 0, false, 2, "no", "sv:1,1,0", 2, 0, "standard", "classes")
		c.BurnZero = true
		add(c)
	}
	// every hole card required (2 of 2), and 3 of 4
	for _, br := range vectors(2, []int64{2, 4}) {
		add(cfg(br, 0, 1, 2, 0, false, 0, "no", "f52", 2, 2, "standard", "all"))
	}
	add(cfg([]int64{3, 2, 4}, 0, 1, 2, 0, false, 1, "no", "r52", 2, 2, "standard", "classes"))
	add(cfg([]int64{3, 4, 2}, 1, 1, 2, 0, false, 0, "no", "t52", 4, 3, "standard", "classes"))
	// "table style" short deck: the standard ranking table played with the 36-card deck
	for _, br := range vectors(2, []int64{2, 5}) {
		add(cfg(br, 0, 1, 2, 0, false, 0, "no", "r36", 2, 0, "standard", "classes"))
	}
	add(cfg([]int64{3, 4, 2}, 0, 1, 2, 0, false, 1, "no", "t36", 2, 0, "standard", "classes"))
	// short deck and 4-hole-cards variants
	for _, br := range vectors(2, []int64{2, 5}) {
		add(cfg(br, 0, 1, 2, 0, false, 0, "no", "f36", 2, 0, "short", "all"))
		add(cfg(br, 1, 1, 2, 0, false, 1, "no", "royal36", 2, 0, "short", "all"))
		add(cfg(br, 0, 1, 2, 0, false, 0, "no", "sv:3,3", 4, 2, "standard", "all"))
	}
	add(cfg([]int64{4, 6, 5}, 0, 1, 2, 0, false, 0, "no", "t36", 2, 0, "short", "all"))
	add(cfg([]int64{4, 6, 5}, 0, 1, 2, 0, false, 1, "no", "sv:4,0,4", 4, 2, "standard", "all"))

	// (B) 4-handed with threshold amount classes
	for _, br := range vectors(4, []int64{2, 5}) {
		add(cfg(br, 0, 1, 2, 0, false, 0, "no", "sv:1,0,1,2", 2, 0, "standard", "classes"))
	}
	add(cfg([]int64{3, 9, 6, 4}, 1, 1, 2, 0, false, 2, "no", "sv:0,0,3,3", 2, 0, "standard", "classes"))
	add(cfg([]int64{8, 3, 5, 8}, 0, 1, 2, 0, true, 3, "pot", "f52", 2, 0, "standard", "classes"))

	// (C) 5- and 6-handed with very short stacks (many all-in levels, long seat walks)
	for _, br := range vectors(5, []int64{1, 3}) {
		add(cfg(br, 0, 1, 2, 0, false, 0, "no", "sv:1,0,1,1,0", 2, 0, "standard", "classes"))
	}
	add(cfg([]int64{2, 4, 1, 3, 2, 4}, 1, 1, 2, 0, false, 3, "no", "sv:2,0,2,1,1,0", 2, 0, "standard", "classes"))
	// three-way tie over a pot of three contribution levels (both blinds fold at different amounts)
	add(cfg([]int64{4, 4, 4, 4, 4}, 0, 1, 3, 0, false, 0, "no", "sv:1,0,0,1,1", 2, 0, "standard", "classes"))
	add(cfg([]int64{3, 3, 3, 3, 3, 3}, 0, 1, 2, 0, true, 1, "pot", "royal52", 2, 0, "standard", "classes"))

	// full ring: 9- and 10-handed, the last seat short (alone on its contribution level), the button far from seat 0
	add(cfg([]int64{2, 2, 2, 2, 2, 2, 2, 2, 2}, 0, 1, 2, 0, false, 0, "no", "royal52", 2, 0, "standard", "classes"))
	add(cfg([]int64{3, 3, 3, 3, 3, 3, 3, 3, 1}, 0, 1, 2, 0, false, 4, "no", "sv:1,0,1,0,1,0,2,0,2", 2, 0, "standard", "edges"))
	add(cfg([]int64{4, 2, 4, 2, 4, 2, 4, 2, 3, 4}, 1, 1, 2, 0, false, 8, "no", "f52", 2, 0, "standard", "edges"))

	// (C') odd corners: equal blinds 3-handed, ante above the blinds, dealer blind only heads-up, 3 and 5 hole cards
	for _, br := range vectors(3, []int64{2, 5}) {
		add(cfg(br, 0, 2, 2, 0, false, 2, "no", "sv:1,1,0", 2, 0, "standard", "all"))
		add(cfg(br, 3, 1, 2, 0, false, 0, "no", "sv:0,1,1", 2, 0, "standard", "classes"))
	}
	for _, br := range vectors(2, []int64{1, 3, 6}) {
		add(cfg(br, 0, 0, 0, 3, false, 1, "no", "f52", 2, 0, "standard", "all"))
		add(cfg(br, 1, 0, 2, 3, false, 0, "pot", "r52", 2, 0, "standard", "all"))
	}
	add(cfg([]int64{4, 3, 5}, 0, 1, 2, 0, false, 2, "no", "f52", 3, 0, "standard", "classes"))
	add(cfg([]int64{3, 5}, 0, 1, 2, 0, false, 1, "no", "t52", 5, 2, "standard", "classes"))
	add(cfg([]int64{3, 4, 2}, 0, 1, 2, 0, false, 0, "no", "f36", 4, 2, "short", "classes"))

	// (D) decks that fit the hand exactly (every card is dealt by the river) or with one card to spare
	for _, d := range []string{"f52:12", "f52:13", "r52:12", "t36:12"} {
		add(cfg([]int64{3, 3}, 0, 1, 2, 0, false, 0, "no", d, 2, 0, "standard", "classes"))
	}
	add(cfg([]int64{2, 3, 2}, 1, 1, 2, 0, false, 1, "no", "f52:14", 2, 0, "standard", "classes"))
	add(cfg([]int64{3, 2}, 0, 1, 2, 0, false, 0, "no", "f52:16", 4, 2, "standard", "classes"))
	add(cfg([]int64{2, 2, 2, 2, 2, 2, 2}, 0, 1, 2, 0, false, 0, "no", "f36", 4, 2, "short", "classes"))

	// (F) the same player actions through the seats' own handles (Game.Player(i).X instead of Game.X)
	for _, c := range []*Config{
		cfg([]int64{3, 5}, 0, 1, 2, 0, false, 0, "no", "f52", 2, 0, "standard", "all"),
		cfg([]int64{4, 2, 5}, 1, 1, 2, 0, false, 1, "no", "sv:1,1,0", 2, 0, "standard", "all"),
		cfg([]int64{5, 3, 4}, 0, 1, 2, 3, false, 2, "pot", "f52", 2, 0, "standard", "all"),
		cfg([]int64{2, 3, 2, 3}, 0, 1, 2, 0, true, 0, "no", "sv:1,0,1,2", 2, 0, "standard", "classes"),
	} {
		c.ViaSeat = true
		add(c)
	}

	// (E) magnitude twins: small shapes with every amount multiplied by k = 1001, 2^31+1, 2^53+1, 2^56+1
	// (table stakes in the thousands; beyond 32 bits; odd values no float64 can hold; near the top of int64)
	for _, k := range []int64{1001, 1<<31 + 1, 1<<53 + 1, 1<<56 + 1} {
		sc := func(v ...int64) []int64 {
			o := make([]int64, len(v))
			for i, x := range v {
				o[i] = x * k
			}
			return o
		}
		add(cfg(sc(3, 5), 0, k, 2*k, 0, false, 0, "no", "f52", 2, 0, "standard", "edges"))
		add(cfg(sc(2, 4, 3), k, k, 2*k, 0, false, 1, "no", "sv:1,1,0", 2, 0, "standard", "edges"))
		add(cfg(sc(5, 3, 4), 0, k, 2*k, 3*k, false, 2, "no", "f52", 2, 0, "standard", "edges"))
		add(cfg(sc(4, 2, 6), 0, k, 2*k, 0, true, 0, "no", "sv:0,1,1", 2, 0, "standard", "edges"))
		add(cfg(sc(4, 4, 4), 0, k, 2*k, 0, false, 0, "pot", "r52", 2, 0, "standard", "edges"))
		add(cfg(sc(3, 3), k, k, 3*k, 0, false, 1, "no", "f52", 2, 0, "standard", "edges"))
		add(cfg(sc(5, 2, 3, 4), 0, k, 2*k, 0, false, 3, "no", "sv:1,0,1,2", 2, 0, "standard", "edges"))
	}

	if tier != "thorough" {
		return out
	}

	// thorough: deeper stacks, 4-handed all amounts, 5- and 6-handed classes
	for _, br := range vectors(3, []int64{4, 9, 12}) {
		add(cfg(br, 1, 1, 2, 0, false, 0, "no", "sv:2,2,1", 2, 0, "standard", "all"))
		add(cfg(br, 0, 2, 5, 0, false, 1, "no", "sv:0,1,1", 2, 0, "standard", "all"))
	}
	for _, br := range vectors(4, []int64{2, 4, 7}) {
		add(cfg(br, 0, 1, 2, 0, false, 1, "no", "sv:1,1,1,0", 2, 0, "standard", "all"))
	}
	for _, br := range vectors(5, []int64{2, 4}) {
		add(cfg(br, 0, 1, 2, 0, false, 0, "no", "sv:0,1,1,1,2", 2, 0, "standard", "classes"))
	}
	add(cfg([]int64{3, 5, 2, 6, 4, 3}, 1, 1, 2, 0, false, 4, "no", "sv:2,0,2,1,1,0", 2, 0, "standard", "classes"))
	add(cfg([]int64{2, 2, 2, 2, 2, 2, 2, 2, 2}, 0, 1, 2, 0, false, 0, "no", "royal52", 2, 0, "standard", "classes"))
	// deeper stacks
	add(cfg([]int64{15, 15, 15}, 0, 1, 2, 0, false, 0, "no", "sv:1,1,0", 2, 0, "standard", "all"))
	add(cfg([]int64{20, 13, 8}, 1, 2, 4, 0, false, 2, "no", "sv:0,2,2", 2, 0, "standard", "all"))
	add(cfg([]int64{14, 9, 14}, 0, 1, 2, 0, true, 1, "pot", "sv:3,3,3", 2, 0, "standard", "all"))
	add(cfg([]int64{10, 10, 10, 10}, 0, 1, 2, 0, false, 0, "no", "sv:1,0,1,2", 2, 0, "standard", "classes"))
	add(cfg([]int64{12, 7, 9, 5}, 1, 1, 2, 0, false, 3, "no", "sv:2,2,0,2", 2, 0, "standard", "classes"))
	add(cfg([]int64{8, 8, 8, 8}, 1, 1, 2, 0, false, 0, "pot", "sv:1,0,1,2", 2, 0, "standard", "all"))
	add(cfg([]int64{6, 6, 6, 6, 6}, 0, 1, 2, 0, false, 0, "no", "sv:1,0,1,1,0", 2, 0, "standard", "classes"))
	add(cfg([]int64{8, 5, 6, 7, 4}, 1, 1, 2, 0, true, 2, "no", "sv:0,3,3,0,3", 2, 0, "standard", "classes"))
	add(cfg([]int64{5, 5, 5, 5, 5, 5}, 0, 1, 2, 3, false, 5, "no", "sv:1,0,1,1,0,2", 2, 0, "standard", "classes"))
	add(cfg([]int64{4, 4, 4, 4, 4, 4}, 0, 1, 2, 0, false, 0, "pot", "royal52", 2, 0, "standard", "classes"))
	add(cfg([]int64{3, 2, 3, 2, 3, 2, 3, 2, 3}, 0, 1, 2, 0, false, 4, "no", "sv:1,0,1,0,1,0,2,0,2", 2, 0, "standard", "classes"))
	add(cfg([]int64{7, 7, 7}, 0, 1, 2, 0, false, 0, "no", "f36", 2, 0, "short", "all"))
	add(cfg([]int64{6, 6, 6, 6}, 0, 1, 2, 0, false, 1, "no", "sv:4,0,4,1", 4, 2, "standard", "classes"))
	return out
}

// ReplayGrid: small configurations explored WITHOUT state cloning: every
// successor is a fresh game replayed from Start() on one uninterrupted object,
// so that slice aliasing and other in-memory-only effects are kept.
func ReplayGrid(tier string) []*Config {
	out := []*Config{
		cfg([]int64{2, 3}, 0, 1, 2, 0, false, 0, "no", "f52", 2, 0, "standard", "classes"),
		cfg([]int64{3, 2}, 0, 1, 2, 0, false, 1, "no", "r52", 2, 2, "standard", "classes"),
		cfg([]int64{2, 2, 3}, 0, 1, 2, 0, false, 0, "no", "t52", 2, 2, "standard", "classes"),
		cfg([]int64{2, 3, 2}, 1, 1, 2, 0, false, 2, "no", "sv:1,1,0", 2, 0, "standard", "classes"),
		cfg([]int64{3, 2}, 0, 1, 2, 0, false, 0, "no", "f52", 4, 2, "standard", "classes"),
		cfg([]int64{2, 3}, 0, 1, 2, 0, false, 0, "no", "f36", 2, 0, "short", "classes"),
		cfg([]int64{2, 2}, 0, 1, 2, 0, false, 0, "no", "f52:12", 2, 0, "standard", "classes"),
	}
	if tier == "thorough" {
		out = append(out,
			cfg([]int64{4, 4, 4}, 0, 1, 2, 0, false, 0, "no", "sv:1,1,0", 2, 2, "standard", "classes"),
			cfg([]int64{3, 3, 3, 3}, 0, 1, 2, 0, false, 1, "no", "f52", 2, 0, "standard", "classes"),
			cfg([]int64{5, 5}, 1, 1, 2, 0, false, 0, "pot", "t52", 4, 4, "standard", "all"))
	}
	return out
}
