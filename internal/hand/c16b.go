package hand

import (
	"fmt"

	pf "github.com/weedbox/pokerface"

	"verif/internal/explore"
	"verif/internal/pots"
)

func init() {
	Visitors["C16"] = func() Visitor { return &c16b{} }
	Visitors["C02"] = func() Visitor { return &c02b{} }
}

func contribVectors(gs *pf.GameState) (contrib []int64, fold []bool) {
	for _, p := range gs.Players {
		contrib = append(contrib, p.Pot+p.Wager)
		fold = append(fold, p.Fold)
	}
	return
}

// c16b: Status.Pots at every publication point in play.
type c16b struct{ Base }

func (v *c16b) OnState(x *Ctx, s *St) {
	gs := s.GS
	ev := gs.Status.CurrentEvent
	if ev != "RoundClosed" && ev != "GameClosed" {
		return
	}
	contrib, fold := contribVectors(gs)
	x.Run.Count("published_pots_checked", 1)
	x.Run.Count(fmt.Sprintf("potcount:%d", len(gs.Status.Pots)), 1)
	if sig, msg := pots.CheckPots(contrib, fold, gs.Status.Pots); sig != "" {
		x.Violate("inplay:"+sig, fmt.Sprintf("pots published at %s: %s (contributions %v, folded %v)", ev, msg, contrib, fold), "", "")
	}
}

// c02b: settlement of every closed hand in play.
type c02b struct{ Base }

func (v *c02b) OnState(x *Ctx, s *St) {
	gs := s.GS
	if gs.Status.CurrentEvent != "GameClosed" || gs.Result == nil {
		return
	}
	contrib, fold := contribVectors(gs)
	n := len(gs.Players)
	strength := make([]int, n)
	changed := make([]int64, n)
	for i, p := range gs.Players {
		if p.Combination != nil {
			strength[i] = p.Combination.Power
		}
	}
	for _, pr := range gs.Result.Players {
		if pr.Idx >= 0 && pr.Idx < n {
			changed[pr.Idx] = pr.Changed
		}
	}
	x.Run.Count("showdowns_checked", 1)
	nz := 0
	for _, c := range changed {
		if c > 0 {
			nz++
		}
	}
	x.Run.Count(fmt.Sprintf("winners:%d", nz), 1)
	if sig, msg := pots.CheckSettlement(contrib, fold, strength, changed); sig != "" {
		x.Violate("inplay:"+sig, msg, "", fmt.Sprint(changed))
	}
}

// C02Grid adds tie-heavy multi-way configurations to the play grid.
func C02Grid(tier string) []*Config {
	out := PlayGrid(tier)
	for _, c := range out {
		if tier != "thorough" {
			if c.Amounts == "all" {
				if c.Amounts == "all" {
					c.Amounts = "classes"
				}
			}
		}
	}
	add := func(c *Config) { out = append(out, c) }
	// 4-handed all-tie and two-way ties with uneven stacks (many all-in levels)
	for _, br := range vectors(4, []int64{1, 2, 4}) {
		add(cfg(br, 0, 1, 2, 0, false, 0, "no", "sv:0,0,0,0", 2, 0, "standard", "classes"))
	}
	for _, br := range vectors(4, []int64{2, 3}) {
		add(cfg(br, 1, 1, 2, 0, false, 1, "no", "sv:2,1,2,1", 2, 0, "standard", "classes"))
	}
	// 5-handed, stacks equal to the big blind: the shortest uneven split needs exactly this shape
	for _, br := range vectors(5, []int64{1, 2}) {
		add(cfg(br, 0, 1, 2, 0, false, 0, "no", "sv:1,0,1,1,0", 2, 0, "standard", "classes"))
	}
	if tier == "thorough" {
		for _, br := range vectors(5, []int64{2, 3, 5}) {
			add(cfg(br, 0, 1, 2, 0, false, 2, "no", "sv:1,1,1,0,2", 2, 0, "standard", "classes"))
		}
		for _, br := range vectors(6, []int64{1, 2}) {
			add(cfg(br, 0, 1, 2, 0, false, 0, "no", "sv:1,1,1,0,0,2", 2, 0, "standard", "classes"))
		}
	}
	return out
}

// RunC16InPlay / RunC02InPlay are the in-play halves of C16 and C02.
func RunC16InPlay(rep *explore.Report, tier string) {
	if RunScenes(rep, tier, Visitors["C16"], GridOpts{Property: "C16"}) {
		return
	}
	RunGrid(rep, C02Grid(tier), Visitors["C16"], GridOpts{Property: "C16", MaxState: 3000000})
	RunGrid(rep, ReplayGrid(tier), Visitors["C16"], GridOpts{Property: "C16", MaxState: 300000, Mode: "replay"})
}

func RunC02InPlay(rep *explore.Report, tier string) {
	if RunScenes(rep, tier, Visitors["C02"], GridOpts{Property: "C02"}) {
		return
	}
	RunGrid(rep, C02Grid(tier), Visitors["C02"], GridOpts{Property: "C02", MaxState: 3000000})
	RunGrid(rep, ReplayGrid(tier), Visitors["C02"], GridOpts{Property: "C02", MaxState: 300000, Mode: "replay"})
}
