package hand

import (
	"fmt"
	"runtime"
	"sync"

	pf "github.com/weedbox/pokerface"

	"verif/internal/explore"
)

func init() { Visitors["C13"] = func() Visitor { return &c13{} } }

// c13: antes and blinds before the first betting round (reference: refForced).
type c13 struct{ Base }

func min64(a, b int64) int64 {
	if a < b {
		return a
	}
	return b
}

// refForced computes, independently of the engine, what every seat must have
// in the pot (ante) and on the table (blind) before the first betting round.
// For a seat holding two blind-bearing positions the statement does not say
// which one is "their blind": every candidate is returned.
func refForced(c *Config) (pot []int64, wagerOptions [][]int64) {
	pos := c.Positions()
	for i, b := range c.Bankroll {
		p := min64(b, c.Ante)
		if c.Ante <= 0 {
			p = 0
		}
		pot = append(pot, p)
		rest := b - p
		var blinds []int64
		for _, q := range pos[i] {
			switch q {
			case "bb":
				if c.BB > 0 {
					blinds = append(blinds, c.BB)
				}
			case "sb":
				if c.SB > 0 {
					blinds = append(blinds, c.SB)
				}
			case "dealer":
				if c.DealerBlind > 0 {
					blinds = append(blinds, c.DealerBlind)
				}
			}
		}
		var opts []int64
		switch len(blinds) {
		case 0:
			opts = []int64{0}
		case 1:
			opts = []int64{min64(rest, blinds[0])}
		default:
			var sum int64
			for _, x := range blinds {
				opts = append(opts, min64(rest, x))
				sum += x
			}
			opts = append(opts, min64(rest, sum))
		}
		wagerOptions = append(wagerOptions, opts)
	}
	return
}

func isPreflopGate(gs *pf.GameState) bool {
	return gs.Status.Round == "preflop" && gs.Status.CurrentEvent == "ReadyRequested"
}

func (v *c13) OnState(x *Ctx, s *St) {
	if isPreflopGate(s.GS) {
		v.oracle(x, s.GS)
	}
}

func (v *c13) oracle(x *Ctx, gs *pf.GameState) {
	c := x.Run.Cfg
	x.Run.Count("forced_bet_states_checked", 1)
	pot, wopts := refForced(c)
	var maxW, sumPot int64
	shape := fmt.Sprintf("a%v-sb%v-bb%v-db%v", c.Ante > 0, c.SB > 0, c.BB > 0, c.DealerBlind > 0)
	for i, p := range gs.Players {
		if p.Pot != pot[i] {
			x.Violate("ante:"+shape, fmt.Sprintf("seat %d (bankroll %d) has %d in the pot after the ante of %d", i, p.Bankroll, p.Pot, c.Ante), fmt.Sprint(pot[i]), fmt.Sprint(p.Pot))
		}
		ok := false
		for _, w := range wopts[i] {
			if p.Wager == w {
				ok = true
			}
		}
		if !ok {
			x.Violate("blind:"+shape, fmt.Sprintf("seat %d %v (bankroll %d) has posted %d", i, c.Positions()[i], p.Bankroll, p.Wager), fmt.Sprint(wopts[i]), fmt.Sprint(p.Wager))
		}
		if p.Wager > maxW {
			maxW = p.Wager
		}
		sumPot += p.Pot
	}
	if gs.Status.CurrentWager != maxW {
		x.Violate("wager-to-match:"+shape, "after the blinds the wager to match must equal the largest blind actually posted (antes do not count)", fmt.Sprint(maxW), fmt.Sprint(gs.Status.CurrentWager))
	}
	if c.BB > 0 && gs.Status.PreviousRaiseSize != c.BB {
		x.Violate("min-raise:"+shape, "the big blind is the minimum raise before any bet", fmt.Sprint(c.BB), fmt.Sprint(gs.Status.PreviousRaiseSize))
	}
	var pots int64
	for _, p := range gs.Status.Pots {
		pots += p.Total
	}
	if c.Ante > 0 && pots != sumPot {
		x.Violate("ante-not-in-pots:"+shape, "the antes must be in the published pots", fmt.Sprint(sumPot), fmt.Sprint(pots))
	}
}

// sweepOne drives one configuration to the gate before the first betting round.
func sweepOne(rep *explore.Report, c *Config, cnt *[4]int64) {
	g, err := c.NewStarted()
	if err != nil {
		cnt[3]++
		return
	}
	run := &Run{Cfg: c, Rep: rep, Vis: &c13{}, Property: "C13", Mode: "replay"}
	var hist []Op
	step := func(kind string) bool {
		op := Op{Kind: kind, Seat: -1}
		err, p := Apply(g, op)
		cnt[1]++
		if err != nil || p != "" {
			x := &Ctx{Run: run, hist: labels(hist)}
			if x.hist == nil {
				x.hist = []string{}
			}
			x.Violate("forced-bet-step-fails:"+kind, fmt.Sprintf("%s fails during the forced bets: %v %s", kind, err, firstLine(p)), "nil", fmt.Sprint(err), op)
			return false
		}
		hist = append(hist, op)
		cnt[0]++
		return true
	}
	cnt[0]++
	if !step("ReadyForAll") {
		return
	}
	if g.GetState().Status.CurrentEvent == "AnteRequested" && !step("PayAnte") {
		return
	}
	if g.GetState().Status.CurrentEvent == "BlindsRequested" && !step("PayBlinds") {
		return
	}
	x := &Ctx{Run: run, hist: labels(hist)}
	gs := g.GetState()
	if !isPreflopGate(gs) {
		x.Violate("no-gate", "after the forced bets the hand is not waiting at the start of the preflop round", "ReadyRequested/preflop", gs.Status.CurrentEvent+"/"+gs.Status.Round)
		return
	}
	(&c13{}).oracle(x, gs)
	cnt[2]++
	run.flush()
}

func c13Grid(tier string, emit func(*Config)) {
	maxN := 6
	if tier == "thorough" {
		maxN = 9
	}
	c13Family(tier, []int64{0, 1, 2, 3, 5}, 40, maxN, emit)
	// the same grid at other magnitudes, 2 and 3 seats: table stakes in the hundreds, amounts around
	// 2^31 / 2^32 (narrower integer types) and odd amounts above 2^53 (not representable as float64)
	c13Family(tier, []int64{0, 25, 50, 100, 250}, 10007, 3, emit)
	c13Family(tier, []int64{0, 1<<31 - 1, 1<<31 + 1, 1<<32 + 1, 1<<33 + 3}, 1<<40+1, 3, emit)
	c13Family(tier, []int64{0, 1<<52 + 1, 1<<53 + 1, 1<<53 + 3, 1<<54 + 5}, 1<<60+1, 3, emit)
}

func c13Family(tier string, vals []int64, deep int64, maxN int, emit func(*Config)) {
	for n := 2; n <= maxN; n++ {
		for _, ante := range vals {
			for _, sb := range vals {
				for _, bb := range vals {
					if sb > bb && n > 3 { // a small blind above the big blind (also: a small blind only) is legal; explored for 2-3 seats
						continue
					}
					for _, db := range vals {
						for btn := 0; btn < n; btn++ {
							for dead := 0; dead < 2; dead++ {
								if dead == 1 && n < 3 {
									continue
								}
								base := &Config{Ante: ante, SB: sb, BB: bb, DealerBlind: db, DeadSB: dead == 1, Button: btn, Limit: "no", Deck: "f52", Hole: 2, Table: "standard", Amounts: "classes"}
								base.Bankroll = make([]int64, n)
								pos := base.Positions()
								// per-seat thresholds: below, at and just above each forced amount
								th := make([][]int64, n)
								for i := 0; i < n; i++ {
									var blind int64
									for _, q := range pos[i] {
										switch q {
										case "bb":
											blind += bb
										case "sb":
											blind += sb
										case "dealer":
											blind += db
										}
									}
									full := uniq([]int64{1, ante, ante + 1, ante + blind - 1, ante + blind, ante + blind + 1, deep})
									switch {
									case n <= 3 || (tier == "thorough" && n <= 4):
										th[i] = full
									case n == 4:
										th[i] = uniq([]int64{1, ante + 1, ante + blind, deep})
									case n == 5:
										th[i] = uniq([]int64{ante, ante + blind, deep})
									default:
										if blind > 0 {
											th[i] = uniq([]int64{ante + blind - 1, ante + blind + 1})
										} else {
											th[i] = uniq([]int64{ante, deep})
										}
										if n > 6 && blind == 0 {
											th[i] = []int64{ante + 1}
										}
									}
								}
								var rec func(i int)
								rec = func(i int) {
									if i == n {
										c := *base
										c.Bankroll = append([]int64{}, base.Bankroll...)
										emit(&c)
										return
									}
									for _, b := range th[i] {
										base.Bankroll[i] = b
										rec(i + 1)
									}
								}
								rec(0)
							}
						}
					}
				}
			}
		}
	}
}

// RunC13 sweeps the full forced-bet configuration grid.
func RunC13(rep *explore.Report, tier string) {
	rep.Set("rule", "full grid of seat counts x button x (ante, sb, bb, dealer blind) in {0,1,2,3,5}^4 (2-3 seats also in {0,25,50,100,250}^4, {0,2^31-1,2^31+1,2^32+1,2^33+3}^4 and {0,2^52+1,2^53+1,2^53+3,2^54+5}^4) with sb<=bb (2-3 seats: any sb, bb) x dead-small-blind flag x per-seat bankrolls on the thresholds below/at/above each forced amount; each configuration is driven Start, ReadyForAll, [PayAnte], [PayBlinds] and compared with refForced; distinct_nontrivial = configurations whose forced bets were compared")
	// scenes first, alone in the process (see scene.go)
	before := rep.ViolationCount()
	{
		var cnt [4]int64
		for _, c := range SceneGrid(tier) {
			sweepOne(rep, c, &cnt)
			rep.Add("scene_configurations", 1)
		}
	}
	sceneCoverage(rep)
	if rep.ViolationCount() > before {
		rep.Cap("a scene configuration violated the property: the rest of the check was skipped")
		return
	}
	workers := runtime.NumCPU()
	ch := make(chan *Config, 1024)
	var wg sync.WaitGroup
	var mu sync.Mutex
	var tot [4]int64
	var sample *Config
	for w := 0; w < workers; w++ {
		wg.Add(1)
		go func() {
			defer wg.Done()
			var cnt [4]int64
			for c := range ch {
				sweepOne(rep, c, &cnt)
			}
			mu.Lock()
			for i := range tot {
				tot[i] += cnt[i]
			}
			mu.Unlock()
		}()
	}
	n := 0
	c13Grid(tier, func(c *Config) {
		n++
		if n == 777777 || sample == nil {
			sample = c
			rep.Sample(map[string]any{"configuration": c, "history": []string{"ReadyForAll", "PayAnte?", "PayBlinds?"}})
		}
		ch <- c
	})
	close(ch)
	wg.Wait()
	rep.Add("states", tot[0])
	rep.Add("transitions", tot[1])
	rep.Add("traces_validated_against_impl", tot[1])
	rep.Add("configurations", int64(n))
	rep.Add("configs_rejected_by_start", tot[3])
	rep.Set("distinct_nontrivial", tot[2])
	rep.Set("evaluations", int64(n))
}
