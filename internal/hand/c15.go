package hand

import (
	"encoding/json"
	"fmt"
	"reflect"

	pf "github.com/weedbox/pokerface"

	"verif/internal/explore"
)

func init() { Visitors["C15"] = func() Visitor { return &c15{} } }

// c15: player and observer views never leak hidden cards, and leave everything else unchanged.
type c15 struct{ Base }

func jsonClone(gs *pf.GameState) *pf.GameState {
	b, err := json.Marshal(gs)
	if err != nil {
		panic(err)
	}
	var out pf.GameState
	if err := json.Unmarshal(b, &out); err != nil {
		panic(err)
	}
	return &out
}

func toDoc(gs *pf.GameState) map[string]any {
	b, err := json.Marshal(gs)
	if err != nil {
		panic(err)
	}
	var d map[string]any
	if err := json.Unmarshal(b, &d); err != nil {
		panic(err)
	}
	return d
}

// scanStrings calls f on every string value anywhere in the document.
func scanStrings(v any, path string, f func(path, s string)) {
	switch t := v.(type) {
	case string:
		f(path, t)
	case []any:
		for i, e := range t {
			scanStrings(e, fmt.Sprintf("%s[%d]", path, i), f)
		}
	case map[string]any:
		for k, e := range t {
			scanStrings(e, path+"."+k, f)
		}
	}
}

func emptyish(v any) bool {
	switch t := v.(type) {
	case nil:
		return true
	case []any:
		return len(t) == 0
	case map[string]any:
		for _, e := range t {
			if !emptyish(e) {
				return false
			}
		}
		return true
	case string:
		return t == ""
	case float64:
		return t == 0
	case bool:
		return !t
	}
	return false
}

func normEqual(a, b any) bool {
	if emptyish(a) && emptyish(b) {
		return true
	}
	am, aok := a.(map[string]any)
	bm, bok := b.(map[string]any)
	if aok && bok {
		for k := range am {
			if !normEqual(am[k], bm[k]) {
				return false
			}
		}
		for k := range bm {
			if _, ok := am[k]; !ok && !emptyish(bm[k]) {
				return false
			}
		}
		return true
	}
	al, aok := a.([]any)
	bl, bok := b.([]any)
	if aok && bok {
		if len(al) != len(bl) {
			return false
		}
		for i := range al {
			if !normEqual(al[i], bl[i]) {
				return false
			}
		}
		return true
	}
	return reflect.DeepEqual(a, b)
}

func (v *c15) OnState(x *Ctx, s *St) {
	gs := s.GS
	closed := gs.Status.CurrentEvent == "GameClosed"
	full := toDoc(gs)
	n := len(gs.Players)
	// viewers: the observer, every seat, and player views asked for somebody who has no seat in this
	// hand (index -1 is what the table layer gets for a table player who is not dealt in; n and n+7 are
	// beyond the last seat) - such a viewer owns no cards, so everything hidden stays hidden
	type viewerT struct {
		who string
		idx int
	}
	viewers := []viewerT{{"observer", -1}}
	for i := 0; i < n; i++ {
		viewers = append(viewers, viewerT{"player", i})
	}
	viewers = append(viewers, viewerT{"stranger", -1}, viewerT{"stranger", n}, viewerT{"stranger", n + 7})
	for _, vw := range viewers {
		viewer, who := vw.idx, vw.who
		view := jsonClone(gs)
		if who == "observer" {
			view.AsObserver()
		} else {
			view.AsPlayer(viewer)
		}
		x.Run.Count("views_checked", 1)
		doc := toDoc(view)
		// hidden cards for this viewer
		hidden := map[string]string{}
		for _, c := range gs.Meta.Deck[min(gs.Status.CurrentDeckPosition, len(gs.Meta.Deck)):] {
			hidden[c] = "undealt deck card"
		}
		for _, c := range gs.Status.Burned {
			hidden[c] = "burned card"
		}
		hiddenSeat := make([]bool, n)
		for _, p := range gs.Players {
			if p.Idx == viewer {
				continue
			}
			if !closed || p.Fold {
				hiddenSeat[p.Idx] = true
				for _, c := range p.HoleCards {
					hidden[c] = fmt.Sprintf("hole card of seat %d", p.Idx)
				}
			}
		}
		phase := "open"
		if closed {
			phase = "closed"
		}
		scanStrings(doc, "", func(path, str string) {
			if what, ok := hidden[str]; ok {
				x.Violate(fmt.Sprintf("leak:%s:%s:%s", who, phase, leakKind(what)), fmt.Sprintf("view for %s %d shows %s %s at %s", who, viewer, what, str, path), "hidden", str)
			}
		})
		// (b) other seats' evaluation
		vp, _ := doc["players"].([]any)
		fp, _ := full["players"].([]any)
		for j := 0; j < n && j < len(vp); j++ {
			pm, _ := vp[j].(map[string]any)
			if hiddenSeat[j] && !emptyish(pm["combination"]) {
				x.Violate(fmt.Sprintf("evaluation-leak:%s:%s", who, phase), fmt.Sprintf("view for %s %d carries the hand evaluation of seat %d", who, viewer, j), "absent", fmt.Sprint(pm["combination"]))
			}
		}
		// (c) everything else unchanged
		for k, fv := range full {
			dv := doc[k]
			switch k {
			case "updated_at", "created_at", "game_id":
				continue
			case "meta":
				fm, _ := fv.(map[string]any)
				dm, _ := dv.(map[string]any)
				for mk, mv := range fm {
					if mk == "deck" {
						continue
					}
					if !normEqual(mv, dm[mk]) {
						x.Violate("public-changed:meta."+mk, "a view changed public information", fmt.Sprint(mv), fmt.Sprint(dm[mk]))
					}
				}
			case "status":
				fm, _ := fv.(map[string]any)
				dm, _ := dv.(map[string]any)
				for mk, mv := range fm {
					if mk == "burned" {
						continue
					}
					if !normEqual(mv, dm[mk]) {
						x.Violate("public-changed:status."+mk, "a view changed public information", fmt.Sprint(mv), fmt.Sprint(dm[mk]))
					}
				}
			case "players":
				for j := 0; j < n && j < len(fp); j++ {
					fm, _ := fp[j].(map[string]any)
					var dm map[string]any
					if j < len(vp) {
						dm, _ = vp[j].(map[string]any)
					}
					for mk, mv := range fm {
						if hiddenSeat[j] && (mk == "hole_cards" || mk == "combination") {
							continue
						}
						if !normEqual(mv, dm[mk]) {
							own := "other"
							if j == viewer {
								own = "own"
							}
							x.Violate("public-changed:players."+own+"."+mk, fmt.Sprintf("view for %s %d changed %s of seat %d", who, viewer, mk, j), fmt.Sprint(mv), fmt.Sprint(dm[mk]))
						}
					}
				}
			default:
				if !normEqual(fv, dv) {
					x.Violate("public-changed:"+k, "a view changed public information", fmt.Sprint(fv), fmt.Sprint(dv))
				}
			}
		}
	}
}

func leakKind(what string) string {
	switch {
	case what == "undealt deck card":
		return "deck"
	case what == "burned card":
		return "burned"
	}
	return "hole-cards"
}

// RunC15 explores the play grid; every state is rendered for every viewer.
func RunC15(rep *explore.Report, tier string) {
	rep.Set("rule", "every reachable state of the play grid x every viewer (each seat, the observer, and AsPlayer for the non-seat indexes -1, n, n+7): JSON clone, AsPlayer/AsObserver, field-agnostic scan of every string value for hidden card tokens, other seats' evaluation absent, everything else equal to the unredacted state; distinct_nontrivial = views rendered")
	if RunScenes(rep, tier, Visitors["C15"], GridOpts{Property: "C15"}) {
		return
	}
	grid := PlayGrid(tier)
	if tier != "thorough" {
		// redaction does not depend on bet sizes: the quick tier explores the same
		// configurations with threshold amount classes instead of every integer
		var small []*Config
		for _, c := range grid {
			if c.Amounts == "all" {
				if c.Amounts == "all" {
					c.Amounts = "classes"
				}
			}
			var sum int64
			for _, b := range c.Bankroll {
				sum += b
			}
			if c.Seats() >= 4 && sum > 14 {
				continue // explored in the thorough tier
			}
			small = append(small, c)
		}
		grid = small
	}
	RunGrid(rep, grid, Visitors["C15"], GridOpts{Property: "C15", MaxState: 3000000})
	// the same oracle on genuinely uninterrupted objects (pure replay, no state cloning)
	RunGrid(rep, ReplayGrid(tier), Visitors["C15"], GridOpts{Property: "C15", MaxState: 300000, Mode: "replay"})
	rep.Set("distinct_nontrivial", rep.Get("views_checked"))
	rep.Set("evaluations", rep.Get("views_checked"))
	rep.Assumption("card tokens are unique strings, so a string equal to a hidden card anywhere in a view is a leak")
}
