package hand

import (
	"fmt"
	"strconv"
	"strings"

	pf "github.com/weedbox/pokerface"
)

// Deck layouts. The engine deals seat 0's hole cards first, then seat 1's ...,
// then burn, 3 flop cards, burn, turn, burn, river.
//
//	f52 / f36   factory order of pokerface.NewStandardDeckCards / NewShortDeckCards
//	r52 / r36   reversed factory order
//	t52 / t36   factory order rotated by 17
//	royal52/36  board is a spade royal flush: every 2-hole-card hand ties (board plays)
//	<name>:<n>  the first n cards of layout <name> (a deck that fits the hand exactly: seats*hole+8 cards)
//	sv:a,b,c..  "strength vector" on the 52-card deck: board KS JH 9D 7C 6S; seat i gets
//	            class 0 = nothing (board plays / junk), 1..5 = a pair of 6,7,9,J,K.
//	            Equal classes tie exactly, higher class wins. At most 3 seats per pair
//	            class. Works for 2 hole cards (any seat count <= 9) and for 4 hole cards
//	            with exactly 2 required (<= 4 seats).
func BuildDeck(c *Config) []string {
	name := c.Deck
	// "<layout>:<n>" keeps only the first n cards (exact-fit and near-fit decks)
	if i := strings.LastIndex(name, ":"); i > 0 && !strings.HasPrefix(name, "sv:") {
		n, err := strconv.Atoi(name[i+1:])
		if err != nil {
			panic("bad deck spec " + name)
		}
		c2 := *c
		c2.Deck = name[:i]
		full := BuildDeck(&c2)
		if n > len(full) {
			n = len(full)
		}
		return append([]string{}, full[:n]...)
	}
	base := pf.NewStandardDeckCards()
	if strings.HasSuffix(name, "36") {
		base = pf.NewShortDeckCards()
	}
	switch {
	case name == "" || name == "f52" || name == "f36":
		return base
	case name == "r52" || name == "r36":
		out := make([]string, len(base))
		for i, x := range base {
			out[len(base)-1-i] = x
		}
		return out
	case name == "t52" || name == "t36":
		return append(append([]string{}, base[17:]...), base[:17]...)
	case name == "royal52" || name == "royal36":
		board := []string{"SA", "SK", "SQ", "SJ", "ST"}
		junk := []string{"H6", "D7", "H8", "D9", "C6", "C7", "C8", "C9", "D6", "H7", "D8", "H9", "S6", "S7", "S8", "S9", "HT", "DJ", "CT", "HJ", "DT", "CJ"}
		var holes [][]string
		k := 0
		for i := 0; i < c.Seats(); i++ {
			var h []string
			for j := 0; j < c.Hole; j++ {
				h = append(h, junk[k])
				k++
			}
			holes = append(holes, h)
		}
		return layout(base, holes, board)
	case strings.HasPrefix(name, "sv:"):
		var sv []int
		for _, f := range strings.Split(name[3:], ",") {
			x, err := strconv.Atoi(f)
			if err != nil {
				panic("bad deck spec " + name)
			}
			sv = append(sv, x)
		}
		return svDeck(c, base, sv)
	}
	panic("unknown deck " + name)
}

func layout(base []string, holes [][]string, board []string) []string {
	used := map[string]bool{}
	var out []string
	put := func(x string) {
		if used[x] {
			panic("deck layout uses " + x + " twice")
		}
		used[x] = true
		out = append(out, x)
	}
	for _, h := range holes {
		for _, x := range h {
			put(x)
		}
	}
	rest := func() string {
		for _, x := range base {
			if !used[x] && !contains(board, x) {
				return x
			}
		}
		panic("deck exhausted")
	}
	put(rest()) // burn
	put(board[0])
	put(board[1])
	put(board[2])
	put(rest())
	put(board[3])
	put(rest())
	put(board[4])
	for _, x := range base {
		if !used[x] {
			put(x)
		}
	}
	if len(out) != len(base) {
		panic(fmt.Sprintf("deck layout has %d cards, want %d", len(out), len(base)))
	}
	in := map[string]bool{}
	for _, x := range base {
		in[x] = true
	}
	for _, x := range out {
		if !in[x] {
			panic("deck layout uses foreign card " + x)
		}
	}
	return out
}

func contains(l []string, x string) bool {
	for _, y := range l {
		if y == x {
			return true
		}
	}
	return false
}

func svDeck(c *Config, base []string, sv []int) []string {
	board := []string{"SK", "HJ", "D9", "C7", "S6"} // card strings are suit+rank
	pairRank := []string{"", "6", "7", "9", "J", "K"}
	boardSuit := map[string]string{"6": "S", "7": "C", "9": "D", "J": "H", "K": "S"}
	suits := []string{"S", "H", "D", "C"}
	usedPair := map[string]int{}
	n := c.Seats()
	if len(sv) < n {
		panic("strength vector shorter than seat count")
	}
	var holes [][]string
	if c.Hole == 2 {
		// class 0 holes: two junk cards of different rank and suit (never a pair, never playing)
		combos := [][]string{{"S2", "H3"}, {"H2", "D3"}, {"D2", "C3"}, {"C2", "S3"}, {"S4", "H5"}, {"H4", "D5"}, {"D4", "C5"}, {"C4", "S5"}}
		taken := map[string]bool{}
		holes = make([][]string, n)
		k := 0
		for i := 0; i < n; i++ {
			if sv[i] == 0 {
				if k >= len(combos) {
					panic("more than 8 seats in class 0")
				}
				holes[i] = combos[k]
				taken[combos[k][0]], taken[combos[k][1]] = true, true
				k++
			}
		}
		var junk []string
		for _, r := range []string{"2", "3", "4", "5"} {
			for _, su := range suits {
				if !taken[su+r] {
					junk = append(junk, su+r)
				}
			}
		}
		jk := 0
		for i := 0; i < n; i++ {
			cl := sv[i]
			if cl == 0 {
				continue
			}
			r := pairRank[cl]
			var s string
			cnt := 0
			for _, cand := range suits {
				if cand == boardSuit[r] {
					continue
				}
				if cnt == usedPair[r] {
					s = cand
					break
				}
				cnt++
			}
			if s == "" {
				panic("more than 3 seats in one pair class")
			}
			usedPair[r]++
			holes[i] = []string{s + r, junk[jk]}
			jk++
		}
		return layout(base, holes, board)
	}
	if c.Hole == 4 && n <= 4 {
		for i := 0; i < n; i++ {
			s := suits[i]
			h := []string{s + "5", s + "4", s + "3"}
			cl := sv[i]
			if cl == 0 {
				h = append([]string{s + "2"}, h...)
			} else {
				r := pairRank[cl]
				var ps string
				cnt := 0
				for _, cand := range suits {
					if cand == boardSuit[r] {
						continue
					}
					if cnt == usedPair[r] {
						ps = cand
						break
					}
					cnt++
				}
				if ps == "" {
					panic("more than 3 seats in one pair class")
				}
				usedPair[r]++
				h = append([]string{ps + r}, h...)
			}
			holes = append(holes, h)
		}
		return layout(base, holes, board)
	}
	panic("sv deck: unsupported hole-card count / seat count")
}
