package hand

import (
	"fmt"
	"math"
	"os"
	"runtime/debug"
	"sort"
	"strconv"
	"strings"

	pf "github.com/weedbox/pokerface"
)

// Op is one call on the engine. Seat < 0: through the Game interface (acts for
// the current player); Seat >= 0: through Game.Player(Seat).
type Op struct {
	Kind string
	Arg  int64
	Seat int
}

var amountOps = map[string]bool{"Bet": true, "Raise": true, "Pay": true}

func (o Op) Label() string {
	s := o.Kind
	if amountOps[o.Kind] {
		s = fmt.Sprintf("%s(%d)", o.Kind, o.Arg)
	}
	if o.Seat >= 0 {
		s = fmt.Sprintf("P%d.%s", o.Seat, s)
	}
	return s
}

func ParseOp(l string) (Op, error) {
	o := Op{Seat: -1}
	if strings.HasPrefix(l, "P") && strings.Contains(l, ".") {
		i := strings.Index(l, ".")
		n, err := strconv.Atoi(l[1:i])
		if err == nil {
			o.Seat = n
			l = l[i+1:]
		}
	}
	if i := strings.Index(l, "("); i >= 0 {
		o.Kind = l[:i]
		a, err := strconv.ParseInt(strings.TrimSuffix(l[i+1:], ")"), 10, 64)
		if err != nil {
			return o, err
		}
		o.Arg = a
	} else {
		o.Kind = l
	}
	switch o.Kind {
	case "ReadyForAll", "PayAnte", "PayBlinds", "Next", "Pass", "Fold", "Check", "Call", "Allin", "Bet", "Raise", "Pay", "Reload":
		return o, nil
	}
	return o, fmt.Errorf("unknown op %q", l)
}

// Apply performs op on g under recover.
func Apply(g pf.Game, o Op) (err error, panicked string) {
	if bg, ok := g.(*besideGame); ok {
		err, panicked = Apply(bg.Game, o)
		if err == nil && panicked == "" {
			bg.sc.interfere()
		}
		return
	}
	defer func() {
		if r := recover(); r != nil {
			panicked = fmt.Sprintf("%v\n%s", r, debug.Stack())
		}
	}()
	if o.Seat >= 0 {
		p := g.Player(o.Seat)
		switch o.Kind {
		case "Pass":
			return p.Pass(), ""
		case "Fold":
			return p.Fold(), ""
		case "Check":
			return p.Check(), ""
		case "Call":
			return p.Call(), ""
		case "Allin":
			return p.Allin(), ""
		case "Bet":
			return p.Bet(o.Arg), ""
		case "Raise":
			return p.Raise(o.Arg), ""
		case "Pay":
			return p.Pay(o.Arg), ""
		case "PayAnte":
			return p.PayAnte(), ""
		case "PayBlinds":
			return p.PayBlinds(), ""
		}
		panic("bad seat op " + o.Kind)
	}
	switch o.Kind {
	case "ReadyForAll":
		return g.ReadyForAll(), ""
	case "PayAnte":
		return g.PayAnte(), ""
	case "PayBlinds":
		return g.PayBlinds(), ""
	case "Next":
		return g.Next(), ""
	case "Pass":
		return g.Pass(), ""
	case "Fold":
		return g.Fold(), ""
	case "Check":
		return g.Check(), ""
	case "Call":
		return g.Call(), ""
	case "Allin":
		return g.Allin(), ""
	case "Bet":
		return g.Bet(o.Arg), ""
	case "Raise":
		return g.Raise(o.Arg), ""
	case "Pay":
		return g.Pay(o.Arg), ""
	}
	panic("bad op " + o.Kind)
}

// Amounts returns the amount arguments tried for Bet/Raise at this state.
func Amounts(c *Config, gs *pf.GameState) []int64 {
	cur := gs.Status.CurrentPlayer
	var S, w int64
	if cur >= 0 && cur < len(gs.Players) {
		S = gs.Players[cur].InitialStackSize
		w = gs.Players[cur].Wager
	}
	W := gs.Status.CurrentWager
	R := gs.Status.PreviousRaiseSize
	M := gs.Status.MiniBet
	set := map[int64]bool{}
	if c.Amounts == "all" {
		hi := S
		for _, b := range c.Bankroll {
			if b > hi {
				hi = b
			}
		}
		for x := int64(-2); x <= hi+2; x++ {
			set[x] = true
		}
		set[math.MinInt64] = true
		set[math.MaxInt64] = true
	} else if c.Amounts == "edges" {
		// the magnitude twins: only the edges of the legal range (the graph must stay small when the
		// stacks are millions of chips deep in distinct amounts)
		for _, x := range []int64{math.MinInt64, -1, 0, M - 1, M, W + R - 1, W + R, S - w, S, S + 1, math.MaxInt64} {
			set[x] = true
		}
	} else {
		for _, x := range []int64{math.MinInt64, -S, -1, 0, 1, M - 1, M, W - 1, W, W + 1, W + R - 1, W + R, W + R + 1, (W + R + S) / 2, S - w - 1, S - w, S - 1, S, S + 1, 2 * S, math.MaxInt64} {
			set[x] = true
		}
	}
	out := make([]int64, 0, len(set))
	for x := range set {
		if x < 0 && os.Getenv("VERIF_NONEG") != "" {
			continue
		}
		out = append(out, x)
	}
	sort.Slice(out, func(i, j int) bool { return out[i] < out[j] })
	return out
}

// WaitPoints are the events at which the engine waits for its driver.
var WaitPoints = map[string]string{
	"ReadyRequested":  "ReadyForAll",
	"AnteRequested":   "PayAnte",
	"BlindsRequested": "PayBlinds",
	"RoundStarted":    "<action of the current player>",
	"RoundClosed":     "Next",
	"GameClosed":      "",
}

// Alphabet lists the operations the engine is expected to accept in gs: the
// single expected table operation, or every action offered to the player to
// act, with every amount argument for bet and raise.
func Alphabet(c *Config, gs *pf.GameState) []Op {
	switch gs.Status.CurrentEvent {
	case "ReadyRequested":
		return []Op{{Kind: "ReadyForAll", Seat: -1}}
	case "AnteRequested":
		return []Op{{Kind: "PayAnte", Seat: -1}}
	case "BlindsRequested":
		return []Op{{Kind: "PayBlinds", Seat: -1}}
	case "RoundClosed":
		return []Op{{Kind: "Next", Seat: -1}}
	case "RoundStarted":
		cur := gs.Status.CurrentPlayer
		if cur < 0 || cur >= len(gs.Players) {
			return nil
		}
		var ops []Op
		for _, a := range gs.Players[cur].AllowedActions {
			switch a {
			case "pass":
				ops = append(ops, Op{Kind: "Pass", Seat: -1})
			case "fold":
				ops = append(ops, Op{Kind: "Fold", Seat: -1})
			case "check":
				ops = append(ops, Op{Kind: "Check", Seat: -1})
			case "call":
				ops = append(ops, Op{Kind: "Call", Seat: -1})
			case "allin":
				ops = append(ops, Op{Kind: "Allin", Seat: -1})
			case "bet":
				for _, x := range Amounts(c, gs) {
					ops = append(ops, Op{Kind: "Bet", Arg: x, Seat: -1})
				}
			case "raise":
				for _, x := range Amounts(c, gs) {
					ops = append(ops, Op{Kind: "Raise", Arg: x, Seat: -1})
				}
			case "pay":
				for _, x := range Amounts(c, gs) {
					ops = append(ops, Op{Kind: "Pay", Arg: x, Seat: -1})
				}
			}
		}
		if c.ViaSeat {
			// the same actions through the seat's own handle, Game.Player(i).X(), instead of Game.X()
			for i := range ops {
				ops[i].Seat = cur
			}
		}
		return ops
	}
	return nil
}
