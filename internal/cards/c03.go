// Package cards holds the exhaustive input enumerations for the hand evaluator
// (C03) and the best-hand selection (C10a).
package cards

import (
	"encoding/json"
	"fmt"
	"runtime"
	"sort"
	"sync"

	"github.com/weedbox/pokerface/combination"

	"verif/internal/explore"
	"verif/internal/hand"
	"verif/internal/refmodel"
)

var suits = []string{"S", "H", "D", "C"}
var points = []string{"2", "3", "4", "5", "6", "7", "8", "9", "T", "J", "Q", "K", "A"}

func Deck(short bool) []string {
	var d []string
	for _, s := range suits {
		lo := 0
		if short {
			lo = 4
		}
		for i := lo; i < 13; i++ {
			d = append(d, s+points[i])
		}
	}
	return d
}

type c03cfg struct {
	Table string   `json:"table"`
	A     []string `json:"hand_a"`
	B     []string `json:"hand_b,omitempty"`
}

func table(name string) combination.PowerRankings {
	if name == "short" {
		return combination.CombinationPowerShortDeck
	}
	return combination.CombinationPowerStandard
}

type classInfo struct {
	score uint64
	hand  [5]string
}

// RunC03 enumerates every five-card hand of both decks under both ranking
// tables and checks that score <-> poker class is a strictly monotone bijection
// and that the category name is right.
func RunC03(rep *explore.Report) {
	rep.Set("rule", "every 5-card subset of the 52- and of the 36-card deck, each under both ranking tables, each in ascending and in reversed card order; first every ordered pair of the 252 hands of a ten-card sub-deck as two evaluations whose results are alive together (sequential, alone in the process); then the whole enumeration twice: in a fresh process and again after real hands of every variant were played (the evaluator and its ranking tables are process-wide); distinct_nontrivial = distinct (deck, table, poker class) triples whose score was compared against its neighbours in the reference order")
	if runC03Pairs(rep) {
		return
	}
	phase := ""
	pass := func() {
		for _, short := range []bool{false, true} {
			deck := Deck(short)
			for _, tname := range []string{"standard", "short"} {
				runC03(rep, deck, short, tname, phase)
			}
		}
	}
	pass()
	// The evaluator is a library shared by every game of the process: play real hands of every
	// variant (both option constructors, both decks, 2 and 4 hole cards), then require the two
	// shipped ranking tables to be what they were and run the whole enumeration again.
	phase = ":after-games"
	for _, c := range []*hand.Config{
		{Bankroll: []int64{5, 5, 5}, SB: 1, BB: 2, Limit: "no", Deck: "f52", Hole: 2, Table: "standard", Amounts: "classes"},
		{Bankroll: []int64{5, 5, 5}, SB: 1, BB: 2, Limit: "no", Deck: "f36", Hole: 2, Table: "standard", Amounts: "classes"},
		{Bankroll: []int64{5, 5, 5}, SB: 1, BB: 2, Limit: "no", Deck: "r36", Hole: 2, Table: "short", Amounts: "classes"},
		{Bankroll: []int64{5, 5}, SB: 1, BB: 2, Limit: "pot", Deck: "t52", Hole: 4, Required: 2, Table: "standard", Amounts: "classes"},
		{Bankroll: []int64{5, 5}, Ante: 1, SB: 1, BB: 2, Limit: "no", Deck: "f36", Hole: 4, Required: 2, Table: "short", Amounts: "classes"},
	} {
		if _, err := hand.PlayOut(c); err != nil {
			rep.Broken = "C03: could not play a hand between the two enumerations: " + err.Error()
		}
		rep.Add("games_played_between_enumerations", 1)
	}
	wantStd := []combination.Combination{combination.CombinationHighCard, combination.CombinationPair, combination.CombinationTwoPair, combination.CombinationThreeOfAKind, combination.CombinationStraight, combination.CombinationFlush, combination.CombinationFullHouse, combination.CombinationFourOfAKind, combination.CombinationStraightFlush}
	wantShort := append([]combination.Combination{}, wantStd...)
	wantShort[5], wantShort[6] = combination.CombinationFullHouse, combination.CombinationFlush
	for name, pair := range map[string][2][]combination.Combination{"standard": {combination.CombinationPowerStandard, wantStd}, "short": {combination.CombinationPowerShortDeck, wantShort}} {
		if fmt.Sprint(pair[0]) != fmt.Sprint(pair[1]) {
			cfg, _ := json.Marshal(c03cfg{Table: name})
			rep.Violation(&explore.Violation{Engine: "none", Signature: "ranking-table-changed:" + name, Message: "the shipped " + name + " ranking table was modified by playing hands", Config: cfg, Expected: fmt.Sprint(pair[1]), Observed: fmt.Sprint(pair[0]), History: []string{"games of every variant played to showdown"}})
		}
	}
	pass()
	rep.Set("traces_validated_against_impl", rep.Get("transitions"))
	rep.Set("evaluations", rep.Get("transitions"))
}

func runC03(rep *explore.Report, deck []string, shortDeck bool, tname string, phase string) {
	tbl := table(tname)
	shortTable := tname == "short"
	n := len(deck)
	refCards := refmodel.ParseCards(deck)
	workers := runtime.NumCPU()
	type res struct {
		byClass map[uint64]classInfo
		hands   int64
		calls   int64
	}
	results := make([]res, workers)
	var wg sync.WaitGroup
	var mu sync.Mutex
	firstIdx := make(chan int, n)
	for i := 0; i < n; i++ {
		firstIdx <- i
	}
	close(firstIdx)
	report := func(sig, msg string, a, b []string, exp, obs string) {
		cfg, _ := json.Marshal(c03cfg{Table: tname, A: a, B: b})
		v := &explore.Violation{Engine: "cards-c03", Signature: sig + phase, Message: msg, Config: cfg, Expected: exp, Observed: obs}
		if phase == "" {
			v.Confirm = func() (bool, string) { return ReplayC03(v) }
		} else {
			v.Message += " (second enumeration, after real hands of every variant were played in this process)"
		}
		rep.Violation(v)
	}
	for w := 0; w < workers; w++ {
		wg.Add(1)
		go func(w int) {
			defer wg.Done()
			r := res{byClass: map[uint64]classInfo{}}
			h := make([]string, 5)
			hr := make([]string, 5)
			rc := make([]refmodel.Card, 5)
			for a := range firstIdx {
				for b := a + 1; b < n; b++ {
					for c := b + 1; c < n; c++ {
						for d := c + 1; d < n; d++ {
							for e := d + 1; e < n; e++ {
								idx := [5]int{a, b, c, d, e}
								for i, x := range idx {
									h[i] = deck[x]
									hr[4-i] = deck[x]
									rc[i] = refCards[x]
								}
								r.hands++
								if shortDeck && refmodel.ShortDeckLowStraight(rc) {
									// class left open by the property: only determinism across orders is checked
									p1 := combination.CalculatePower(tbl, h)
									p2 := combination.CalculatePower(tbl, hr)
									r.calls += 2
									if p1.Score != p2.Score {
										report("order-dependent", "score depends on card order", append([]string{}, h...), nil, fmt.Sprint(p1.Score), fmt.Sprint(p2.Score))
									}
									continue
								}
								cl := refmodel.Eval5(rc)
								key := refmodel.ClassKey(cl, shortTable)
								p1 := combination.CalculatePower(tbl, h)
								p2 := combination.CalculatePower(tbl, hr)
								r.calls += 2
								if p1.Score != p2.Score || p1.Combination != p2.Combination {
									report("order-dependent", "score or category depends on card order", append([]string{}, h...), nil, fmt.Sprint(p1.Score), fmt.Sprint(p2.Score))
								}
								if got := combination.CombinationSymbol[p1.Combination]; got != refmodel.CategoryName[cl.Cat] {
									report("category-name:"+refmodel.CategoryName[cl.Cat], "wrong category reported", append([]string{}, h...), nil, refmodel.CategoryName[cl.Cat], got)
								}
								if old, ok := r.byClass[key]; ok {
									if old.score != p1.Score {
										report("tie-broken:"+refmodel.CategoryName[cl.Cat], "two hands that tie under the rules get different scores", append([]string{}, h...), old.hand[:], "equal scores", fmt.Sprintf("%d vs %d", p1.Score, old.score))
									}
								} else {
									ci := classInfo{score: p1.Score}
									copy(ci.hand[:], h)
									r.byClass[key] = ci
								}
							}
						}
					}
				}
			}
			mu.Lock()
			results[w] = r
			mu.Unlock()
		}(w)
	}
	wg.Wait()
	all := map[uint64]classInfo{}
	var hands, calls int64
	for _, r := range results {
		hands += r.hands
		calls += r.calls
		for k, ci := range r.byClass {
			if old, ok := all[k]; ok {
				if old.score != ci.score {
					report("tie-broken", "two hands that tie under the rules get different scores", ci.hand[:], old.hand[:], "equal scores", fmt.Sprintf("%d vs %d", ci.score, old.score))
				}
				continue
			}
			all[k] = ci
		}
	}
	keys := make([]uint64, 0, len(all))
	for k := range all {
		keys = append(keys, k)
	}
	sort.Slice(keys, func(i, j int) bool { return keys[i] < keys[j] })
	// strictly increasing along the reference order <=> every pair of hands is ordered correctly
	for i := 1; i < len(keys); i++ {
		lo, hi := all[keys[i-1]], all[keys[i]]
		if !(lo.score < hi.score) {
			sig := "order-inverted"
			if lo.score == hi.score {
				sig = "false-tie"
			}
			report(sig, "a hand that wins under the rules does not get the higher score", hi.hand[:], lo.hand[:], "score(hand_a) > score(hand_b)", fmt.Sprintf("%d vs %d", hi.score, lo.score))
		}
	}
	rep.Add("states", hands)
	rep.Add("transitions", calls)
	rep.Add("distinct_nontrivial", int64(len(keys)))
	rep.Add("configurations", 1)
	if len(keys) > 0 {
		mid := all[keys[len(keys)/2]]
		rep.Sample(map[string]any{"deck": len(deck), "table": tname, "classes": len(keys), "hands": hands, "median_class_hand": mid.hand, "score": mid.score})
	}
}

// ReplayC03 re-evaluates a recorded counterexample.
func ReplayC03(v *explore.Violation) (bool, string) {
	var cfg c03cfg
	if err := json.Unmarshal(v.Config, &cfg); err != nil {
		return false, err.Error()
	}
	if len(v.Signature) > 5 && v.Signature[:5] == "pair:" {
		sig, msg := evalPair(cfg.Table, cfg.A, cfg.B)
		return sig == v.Signature, msg
	}
	tbl := table(cfg.Table)
	short := cfg.Table == "short"
	pa := combination.CalculatePower(tbl, append([]string{}, cfg.A...))
	ca := refmodel.Eval5(refmodel.ParseCards(cfg.A))
	if len(cfg.B) == 0 {
		rev := make([]string, 5)
		for i := range cfg.A {
			rev[4-i] = cfg.A[i]
		}
		pr := combination.CalculatePower(tbl, rev)
		if pa.Score != pr.Score || pa.Combination != pr.Combination {
			return true, "order-dependent"
		}
		if combination.CombinationSymbol[pa.Combination] != refmodel.CategoryName[ca.Cat] {
			return true, "category"
		}
		return false, "hand evaluates consistently"
	}
	pb := combination.CalculatePower(tbl, append([]string{}, cfg.B...))
	cb := refmodel.Eval5(refmodel.ParseCards(cfg.B))
	ka, kb := refmodel.ClassKey(ca, short), refmodel.ClassKey(cb, short)
	switch {
	case ka == kb && pa.Score != pb.Score:
		return true, "tie broken"
	case ka > kb && !(pa.Score > pb.Score):
		return true, "order"
	case ka < kb && !(pa.Score < pb.Score):
		return true, "order"
	}
	return false, "pair is ordered correctly"
}
