package cards

import (
	"encoding/json"
	"fmt"

	"github.com/weedbox/pokerface/combination"

	"verif/internal/explore"
	"verif/internal/refmodel"
)

// Two evaluations in one process: every ordered pair (a, b) of the 252 five-card hands of a ten-card
// sub-deck (it holds a straight flush, quads, full houses, trips, two pairs, pairs, straights and
// high cards), under both ranking tables, sequentially and alone in the process: a is evaluated and
// its result kept, b is evaluated, then a's result must still be what it was and b's score must be
// the score b gets when it is evaluated on its own. Decides whether the evaluator couples two of its
// results through anything package-level (scratch buffers, caches keyed too coarsely).

var pairDeck = []string{"SA", "SK", "SQ", "SJ", "ST", "HA", "DA", "CA", "HK", "DK"}

func renderPower(p *combination.PowerState) string {
	s := fmt.Sprintf("%d/%d/", p.Combination, p.Score)
	for _, c := range p.Cards {
		s += c.ToString() + ","
	}
	b, _ := json.Marshal(p.Elements)
	return s + string(b)
}

func evalPair(tname string, a, b []string) (sig, msg string) {
	tbl := table(tname)
	soloB := combination.CalculatePower(tbl, append([]string{}, b...)).Score
	pa := combination.CalculatePower(tbl, append([]string{}, a...))
	was := renderPower(pa)
	pb := combination.CalculatePower(tbl, append([]string{}, b...))
	if pb.Score != soloB {
		return "pair:score-depends-on-earlier-evaluation", fmt.Sprintf("hand_b scores %d on its own and %d right after hand_a was evaluated", soloB, pb.Score)
	}
	if now := renderPower(pa); now != was {
		return "pair:earlier-result-changed", fmt.Sprintf("the result kept for hand_a changed when hand_b was evaluated: %s -> %s", was, now)
	}
	if got, want := combination.CombinationSymbol[pb.Combination], refmodel.CategoryName[refmodel.Eval5(refmodel.ParseCards(b)).Cat]; got != want {
		return "pair:category", fmt.Sprintf("hand_b evaluated after hand_a is reported as %s, it is %s", got, want)
	}
	return "", ""
}

func runC03Pairs(rep *explore.Report) bool {
	before := rep.ViolationCount()
	var hands [][]string
	n := len(pairDeck)
	for a := 0; a < n; a++ {
		for b := a + 1; b < n; b++ {
			for c := b + 1; c < n; c++ {
				for d := c + 1; d < n; d++ {
					for e := d + 1; e < n; e++ {
						hands = append(hands, []string{pairDeck[a], pairDeck[b], pairDeck[c], pairDeck[d], pairDeck[e]})
					}
				}
			}
		}
	}
	var pairs int64
	for _, tname := range []string{"standard", "short"} {
		for _, a := range hands {
			for _, b := range hands {
				pairs++
				if sig, msg := evalPair(tname, a, b); sig != "" {
					cfg, _ := json.Marshal(c03cfg{Table: tname, A: a, B: b})
					v := &explore.Violation{Engine: "cards-c03", Signature: sig, Message: msg, Config: cfg}
					v.Confirm = func() (bool, string) { return ReplayC03(v) }
					rep.Violation(v)
				}
			}
		}
	}
	rep.Set("pairs_of_evaluations_in_one_process", pairs)
	rep.Add("transitions", 3*pairs)
	if rep.ViolationCount() > before {
		rep.Cap("a pair of evaluations violated the property: the enumeration was skipped")
		return true
	}
	return false
}
