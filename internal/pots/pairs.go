package pots

import (
	"encoding/json"
	"fmt"

	"github.com/weedbox/pokerface/pot"

	"verif/internal/explore"
)

// Two computations in one process. Pots and results are built by library objects; nothing says an
// application has only one of them alive at a time (a server runs many tables). Every ordered pair
// (u, v) of a small vector domain is run, sequentially and alone in the process, in two shapes:
//
//	held         u is computed and its outcome kept; v is computed; u's outcome must still be what it
//	             was and v's outcome must satisfy the oracle
//	interleaved  the two lists are filled alternately, contributor by contributor, then both are read;
//	             both outcomes must satisfy the oracle
//
// This decides whether anything package-level (a scratch buffer, a cache) couples two objects.

func pairDomain(withStrength bool, tier string) []*Vec {
	var out []*Vec
	gen := func(n int, vals []int64, nS int) {
		total := ipow(len(vals), n) * ipow(2, n)
		if nS > 0 {
			total *= ipow(nS, n)
		}
		for k := int64(0); k < total; k++ {
			v := &Vec{Contrib: make([]int64, n), Fold: make([]bool, n)}
			kk := k
			for i := 0; i < n; i++ {
				v.Contrib[i] = vals[kk%int64(len(vals))]
				kk /= int64(len(vals))
			}
			for i := 0; i < n; i++ {
				v.Fold[i] = kk%2 == 1
				kk /= 2
			}
			if nS > 0 {
				v.Strength = make([]int, n)
				for i := 0; i < n; i++ {
					v.Strength[i] = int(kk % int64(nS))
					kk /= int64(nS)
				}
			}
			out = append(out, v)
		}
	}
	nS := 0
	if withStrength {
		nS = 2
	}
	if withStrength {
		gen(2, []int64{1, 2}, nS)
		if tier == "thorough" {
			gen(3, []int64{1, 2}, nS)
		} else {
			gen(3, []int64{1, 3}, 0) // strengths all equal: three-way ties with odd chips
			for _, v := range out {
				if v.Strength == nil {
					v.Strength = make([]int, len(v.Contrib))
				}
			}
		}
	} else {
		gen(1, []int64{0, 2}, 0)
		gen(2, []int64{0, 1, 2, 3}, 0)
		gen(3, []int64{1, 2}, 0)
		if tier == "thorough" {
			gen(4, []int64{1, 2}, 0)
		}
	}
	return out
}

type pairOutcome struct {
	pots    []*pot.Pot
	changed []int64
}

func (o *pairOutcome) render() string {
	b, _ := json.Marshal(o.pots)
	return string(b) + fmt.Sprint(o.changed)
}

func settleVec(v *Vec, pots []*pot.Pot) []int64 {
	n := len(v.Contrib)
	bank := make([]int64, n)
	score := make([]int, n)
	for i := range bank {
		bank[i] = 10
		score[i] = 100 * (v.Strength[i] + 1)
	}
	res := Settle(pots, bank, v.Fold, score)
	changed := make([]int64, n)
	for _, pr := range res.Players {
		changed[pr.Idx] = pr.Changed
	}
	return changed
}

// runPair executes one pair and returns "" or (signature, message).
func runPair(prop string, u, v *Vec, shape string) (sig string, msg string) {
	defer func() {
		if r := recover(); r != nil {
			sig, msg = "panics", fmt.Sprintf("two computations in one process (%s): the library panics: %v", shape, r)
		}
	}()
	judge := func(x *Vec, o *pairOutcome) (string, string) {
		if prop == "C16" {
			return CheckPots(x.Contrib, x.Fold, o.pots)
		}
		return CheckSettlement(x.Contrib, x.Fold, x.Strength, o.changed)
	}
	switch shape {
	case "held":
		ou := &pairOutcome{pots: BuildPots(u)}
		if prop == "C02" {
			ou.changed = settleVec(u, ou.pots)
		}
		was := ou.render()
		ov := &pairOutcome{pots: BuildPots(v)}
		if prop == "C02" {
			ov.changed = settleVec(v, ov.pots)
		}
		if sig, msg := judge(v, ov); sig != "" {
			return "second-of-two:" + sig, "the second of two computations in one process: " + msg
		}
		if now := ou.render(); now != was {
			return "earlier-outcome-changed", fmt.Sprintf("the outcome of the first computation changed when the second one ran: %s -> %s", was, now)
		}
	case "interleaved":
		lu, lv := pot.NewLevelList(), pot.NewLevelList()
		for i := 0; i < len(u.Contrib) || i < len(v.Contrib); i++ {
			if i < len(u.Contrib) {
				lu.AddContributor(u.Contrib[i], i, u.Fold[i])
			}
			if i < len(v.Contrib) {
				lv.AddContributor(v.Contrib[i], i, v.Fold[i])
			}
		}
		ou := &pairOutcome{pots: lu.GetPots()}
		ov := &pairOutcome{pots: lv.GetPots()}
		if prop == "C02" {
			ou.changed = settleVec(u, ou.pots)
			ov.changed = settleVec(v, ov.pots)
		}
		if sig, msg := judge(u, ou); sig != "" {
			return "interleaved:" + sig, "first of two lists filled alternately: " + msg
		}
		if sig, msg := judge(v, ov); sig != "" {
			return "interleaved:" + sig, "second of two lists filled alternately: " + msg
		}
	}
	return "", ""
}

// RunPairs runs every ordered pair of the pair domain in both shapes. It reports whether a violation
// was recorded.
func RunPairs(rep *explore.Report, prop, tier string) bool {
	dom := pairDomain(prop == "C02", tier)
	before := rep.ViolationCount()
	var pairs int64
	for _, u := range dom {
		for _, v := range dom {
			for _, shape := range []string{"held", "interleaved"} {
				pairs++
				if sig, msg := runPair(prop, u, v, shape); sig != "" {
					vv := *v
					vv.Prev = u
					vv.Pair = shape
					rep.Violation(violation(prop, sig, msg, &vv))
				}
			}
		}
	}
	rep.Set("pairs_of_computations_in_one_process", pairs)
	rep.Set("pair_domain_vectors", int64(len(dom)))
	rep.Add("transitions", pairs)
	rep.Add("traces_validated_against_impl", pairs)
	rep.Set("pairs", fmt.Sprintf("every ordered pair of %d small vectors, as two computations alive in one process: one after the other with the first outcome held and re-read, and filled alternately contributor by contributor; sequential, before anything else runs", len(dom)))
	if rep.ViolationCount() > before {
		rep.Cap("a pair of computations violated the property: the rest of the direct enumeration was skipped")
		return true
	}
	return false
}
