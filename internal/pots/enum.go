package pots

import (
	"encoding/json"
	"fmt"
	"runtime"
	"sync"
	"sync/atomic"

	"github.com/weedbox/pokerface/pot"
	"github.com/weedbox/pokerface/verifshim/vrt"

	"verif/internal/explore"
)

func perms(n int) [][]int {
	if n == 0 {
		return [][]int{{}}
	}
	var out [][]int
	for _, p := range perms(n - 1) {
		for pos := 0; pos <= len(p); pos++ {
			q := append(append(append([]int{}, p[:pos]...), n-1), p[pos:]...)
			out = append(out, q)
		}
	}
	return out
}

// vecAt decodes enumeration index k into (contrib in 0..maxC, fold, strength in 0..nS-1).
func vecAt(n int, k int64, maxC, nS int) *Vec {
	v := &Vec{Contrib: make([]int64, n), Fold: make([]bool, n)}
	if nS > 0 {
		v.Strength = make([]int, n)
	}
	for i := 0; i < n; i++ {
		v.Contrib[i] = k % int64(maxC+1)
		k /= int64(maxC + 1)
	}
	for i := 0; i < n; i++ {
		v.Fold[i] = k%2 == 1
		k /= 2
	}
	for i := 0; i < n && nS > 0; i++ {
		v.Strength[i] = int(k % int64(nS))
		k /= int64(nS)
	}
	return v
}

func ipow(b, e int) int64 {
	r := int64(1)
	for i := 0; i < e; i++ {
		r *= int64(b)
	}
	return r
}

type job struct {
	n    int
	from int64
	to   int64
}

func parallel(total int64, n int, f func(w int, k int64)) {
	workers := runtime.NumCPU()
	var next int64
	const chunk = 256
	var wg sync.WaitGroup
	for w := 0; w < workers; w++ {
		wg.Add(1)
		go func(w int) {
			defer wg.Done()
			runtime.LockOSThread()
			defer runtime.UnlockOSThread()
			for {
				lo := atomic.AddInt64(&next, chunk) - chunk
				if lo >= total {
					return
				}
				hi := lo + chunk
				if hi > total {
					hi = total
				}
				for k := lo; k < hi; k++ {
					f(w, k)
				}
			}
		}(w)
	}
	wg.Wait()
}

func violation(prop, sig, msg string, v *Vec) *explore.Violation {
	cfg, _ := json.Marshal(v)
	vi := &explore.Violation{Property: prop, Engine: "pots", Signature: sig, Message: msg, Config: cfg, Choices: v.Choices,
		History: []string{fmt.Sprintf("n=%d contrib=%v fold=%v strength=%v order=%v pots_read_after_every_contributor=%v", len(v.Contrib), v.Contrib, v.Fold, v.Strength, v.Order, v.Reads)}}
	if v.Prev != nil {
		vi.History = []string{fmt.Sprintf("first (%s): n=%d contrib=%v fold=%v strength=%v", v.Pair, len(v.Prev.Contrib), v.Prev.Contrib, v.Prev.Fold, v.Prev.Strength), vi.History[0]}
	}
	vi.Confirm = func() (bool, string) { return Replay(vi) }
	return vi
}

func withMapOrder(choices []int, f func()) *vrt.Chooser {
	ch := vrt.NewChooser(choices)
	explore.WithChooser(ch, f)
	return ch
}

// RunC16 enumerates every contribution/fold vector, insertion order and map order (bounded deviations).
func RunC16(rep *explore.Report, tier string) {
	maxN, devBound, fullOrderN := 4, 1, 3
	if tier == "thorough" {
		maxN, devBound, fullOrderN = 5, 2, 4
	}
	rep.Set("rule", fmt.Sprintf("every vector of n<=%d contributions in 0..4 with every fold flag; for n<=%d every insertion order (larger n: ascending and descending), every map iteration order with <=%d non-default choices per execution, and once more with GetPots also called after every AddContributor (a list that is read while it is filled); plus 5, 6 and 7 players with contributions in {1,2,3} and 8, 9 (thorough: 10) players with contributions in {1,2}, inserted in ascending and descending seat order; for n<=3 also with every contribution multiplied by 2^31+1 and by 2^53+1; oracle refLayers; distinct_nontrivial = distinct pot structures observed", maxN, fullOrderN, devBound))
	rep.Set("map_order_deviation_bound", int64(devBound))
	if RunPairs(rep, "C16", tier) {
		return
	}
	var structures sync.Map
	var nStruct, execs, vectors, readsBetween int64
	for n := 1; n <= maxN; n++ {
		orders := perms(n)
		if n > fullOrderN {
			asc, desc := make([]int, n), make([]int, n)
			for i := range asc {
				asc[i], desc[i] = i, n-1-i
			}
			orders = [][]int{asc, desc}
		}
		bound := devBound
		if n == 5 {
			bound = 1
		}
		total := ipow(5, n) * ipow(2, n)
		parallel(total, n, func(w int, k int64) {
			base := vecAt(n, k, 4, 0)
			atomic.AddInt64(&vectors, 1)
			for _, ord := range orders {
				v := &Vec{Contrib: base.Contrib, Fold: base.Fold, Order: ord}
				e, _ := explore.Deviations(bound, 0, func(ch *vrt.Chooser) {
					var pots []*pot.Pot
					explore.WithChooser(ch, func() { pots = BuildPots(v) })
					if sig, msg := CheckPots(v.Contrib, v.Fold, pots); sig != "" {
						vv := *v
						vv.Choices = ch.Choices()
						rep.Violation(violation("C16", sig, msg, &vv))
					}
					key := potShape(pots)
					if _, loaded := structures.LoadOrStore(key, true); !loaded {
						atomic.AddInt64(&nStruct, 1)
					}
				})
				atomic.AddInt64(&execs, int64(e))
				// the same list read while it is being filled: GetPots after every AddContributor
				vr := &Vec{Contrib: base.Contrib, Fold: base.Fold, Order: ord, Reads: true}
				if sig, msg := CheckPots(vr.Contrib, vr.Fold, BuildPots(vr)); sig != "" {
					rep.Violation(violation("C16", sig, msg, vr))
				}
				atomic.AddInt64(&execs, 1)
				atomic.AddInt64(&readsBetween, 1)
				// magnitude twins: the same vector with every contribution multiplied by 2^31+1 and 2^53+1
				if n <= 3 {
					for _, k := range magnitudes {
						vk := &Vec{Contrib: scaled(base.Contrib, k), Fold: base.Fold, Order: ord}
						if sig, msg := CheckPots(vk.Contrib, vk.Fold, BuildPots(vk)); sig != "" {
							rep.Violation(violation("C16", sig, msg, vk))
						}
						atomic.AddInt64(&execs, 1)
					}
				}
			}
		})
	}
	rep.Set("executions_with_pots_read_after_every_contributor", readsBetween)
	// reduced domain for more players: contributions in {1,2,3}, every fold flag, ascending and descending insertion
	for _, n := range []int{5, 6, 7, 8, 9, 10} {
		vals := []int64{1, 2, 3}
		if n >= 8 {
			vals = []int64{1, 2} // 8..10 players (slice capacities 8 and 16): two contribution values
		}
		if n == 10 && tier != "thorough" {
			continue
		}
		asc, desc := make([]int, n), make([]int, n)
		for i := range asc {
			asc[i], desc[i] = i, n-1-i
		}
		total := ipow(len(vals), n) * ipow(2, n)
		parallel(total, n, func(w int, k int64) {
			base := &Vec{Contrib: make([]int64, n), Fold: make([]bool, n)}
			kk := k
			for i := 0; i < n; i++ {
				base.Contrib[i] = vals[kk%int64(len(vals))]
				kk /= int64(len(vals))
			}
			for i := 0; i < n; i++ {
				base.Fold[i] = kk%2 == 1
				kk /= 2
			}
			atomic.AddInt64(&vectors, 1)
			for oi, ord := range [][]int{asc, desc, asc} {
				v := &Vec{Contrib: base.Contrib, Fold: base.Fold, Order: ord, Reads: oi == 2}
				pots := BuildPots(v)
				if sig, msg := CheckPots(v.Contrib, v.Fold, pots); sig != "" {
					rep.Violation(violation("C16", sig, msg, v))
				}
				key := potShape(pots)
				if _, loaded := structures.LoadOrStore(key, true); !loaded {
					atomic.AddInt64(&nStruct, 1)
				}
				atomic.AddInt64(&execs, 1)
			}
		})
	}
	rep.Add("states", vectors)
	rep.Add("transitions", execs)
	rep.Add("traces_validated_against_impl", execs)
	rep.Set("evaluations", execs)
	rep.Set("distinct_nontrivial", nStruct)
	rep.Sample(map[string]any{"contrib": []int{1, 2, 2, 4}, "fold": []bool{true, false, false, false}, "insertion_order": []int{3, 0, 2, 1}})
}

// magnitudes: factors of the magnitude twins (beyond 32 bits; odd values no float64 can hold).
var magnitudes = []int64{1<<31 + 1, 1<<53 + 1}

func scaled(v []int64, k int64) []int64 {
	o := make([]int64, len(v))
	for i, x := range v {
		o[i] = x * k
	}
	return o
}

func potShape(pots []*pot.Pot) string {
	s := ""
	for _, p := range pots {
		s += fmt.Sprintf("%d:%d:%d|", p.Level, p.Total, len(p.Contributors))
	}
	return s
}

// RunC02 enumerates contribution x fold x strength vectors through pots and settlement.
func RunC02(rep *explore.Report, tier string) {
	maxN, devN := 4, 3
	if tier == "thorough" {
		maxN, devN = 5, 4
	}
	rep.Set("rule", fmt.Sprintf("every vector of n<=%d players x contribution 0..4 x fold flag x strength class 0..2 fed to pot.LevelList and settlement.Result exactly as the engine does (for n<=%d also every map order with <=1 non-default choice); plus 5 players with contributions in {1,2,3,4} 6 players with contributions in {1,2,4} and 7 players with contributions in {1,2}, strengths {0,1}; for n<=3 also with every contribution multiplied by 2^31+1 and by 2^53+1; oracle refSettle on the per-player changes; distinct_nontrivial = distinct result vectors observed", maxN, devN))
	if RunPairs(rep, "C02", tier) {
		return
	}
	var execs, vectors, constrained int64
	var outcomes sync.Map
	var nOut int64
	for n := 2; n <= maxN; n++ {
		total := ipow(5, n) * ipow(2, n) * ipow(3, n)
		bound := 0
		if n <= devN {
			bound = 1
		}
		parallel(total, n, func(w int, k int64) {
			v := vecAt(n, k, 4, 3)
			atomic.AddInt64(&vectors, 1)
			bank := make([]int64, n)
			score := make([]int, n)
			for i := range bank {
				bank[i] = 10
				score[i] = 100 * (v.Strength[i] + 1)
			}
			e, _ := explore.Deviations(bound, 0, func(ch *vrt.Chooser) {
				var changed []int64
				explore.WithChooser(ch, func() {
					pots := BuildPots(v)
					res := Settle(pots, bank, v.Fold, score)
					changed = make([]int64, n)
					for _, pr := range res.Players {
						changed[pr.Idx] = pr.Changed
					}
				})
				if sig, msg := CheckSettlement(v.Contrib, v.Fold, v.Strength, changed); sig != "" {
					vv := *v
					vv.Choices = ch.Choices()
					rep.Violation(violation("C02", sig, msg, &vv))
				}
				key := fmt.Sprint(changed)
				if _, loaded := outcomes.LoadOrStore(key, true); !loaded {
					atomic.AddInt64(&nOut, 1)
				}
			})
			atomic.AddInt64(&execs, int64(e))
			_ = constrained
			// magnitude twins: the same vector with every contribution multiplied by 2^31+1 and 2^53+1
			if n <= 3 {
				for _, k := range magnitudes {
					vk := &Vec{Contrib: scaled(v.Contrib, k), Fold: v.Fold, Strength: v.Strength}
					changed := settleVec(vk, BuildPots(vk))
					if sig, msg := CheckSettlement(vk.Contrib, vk.Fold, vk.Strength, changed); sig != "" {
						rep.Violation(violation("C02", sig, msg, vk))
					}
					atomic.AddInt64(&execs, 1)
				}
			}
		})
	}
	// reduced domains for more players: contributions {1,2} (5 and 6 players), {1,2,3} (5 players), strengths {0,1}
	for _, rd := range []struct {
		n    int
		vals []int64
	}{{5, []int64{1, 2}}, {5, []int64{1, 2, 3, 4}}, {6, []int64{1, 2}}, {6, []int64{1, 2, 4}}, {7, []int64{1, 2}}} {
		n, vals := rd.n, rd.vals
		total := ipow(len(vals), n) * ipow(2, n) * ipow(2, n)
		parallel(total, n, func(w int, k int64) {
			v := &Vec{Contrib: make([]int64, n), Fold: make([]bool, n), Strength: make([]int, n)}
			kk := k
			for i := 0; i < n; i++ {
				v.Contrib[i] = vals[kk%int64(len(vals))]
				kk /= int64(len(vals))
			}
			for i := 0; i < n; i++ {
				v.Fold[i] = kk%2 == 1
				kk /= 2
			}
			for i := 0; i < n; i++ {
				v.Strength[i] = int(kk % 2)
				kk /= 2
			}
			atomic.AddInt64(&vectors, 1)
			bank := make([]int64, n)
			score := make([]int, n)
			for i := range bank {
				bank[i] = 10
				score[i] = 100 * (v.Strength[i] + 1)
			}
			pots := BuildPots(v)
			res := Settle(pots, bank, v.Fold, score)
			changed := make([]int64, n)
			for _, pr := range res.Players {
				changed[pr.Idx] = pr.Changed
			}
			if sig, msg := CheckSettlement(v.Contrib, v.Fold, v.Strength, changed); sig != "" {
				rep.Violation(violation("C02", sig, msg, v))
			}
			key := fmt.Sprint(changed)
			if _, loaded := outcomes.LoadOrStore(key, true); !loaded {
				atomic.AddInt64(&nOut, 1)
			}
			atomic.AddInt64(&execs, 1)
		})
	}
	rep.Add("states", vectors)
	rep.Add("transitions", execs)
	rep.Add("traces_validated_against_impl", execs)
	rep.Add("direct_vectors", vectors)
	rep.Set("distinct_nontrivial", nOut)
	rep.Sample(map[string]any{"contrib": []int{1, 2, 2, 2}, "fold": []bool{true, false, false, false}, "strength": []int{0, 1, 1, 0}})
}

// Replay re-evaluates a recorded vector.
func Replay(v *explore.Violation) (bool, string) {
	var vec Vec
	if err := json.Unmarshal(v.Config, &vec); err != nil {
		return false, err.Error()
	}
	if vec.Prev != nil {
		sig, msg := runPair(v.Property, vec.Prev, &vec, vec.Pair)
		if sig == v.Signature {
			return true, msg
		}
		return false, "oracle silent (" + sig + ")"
	}
	runtime.LockOSThread()
	defer runtime.UnlockOSThread()
	sig, msg := "", ""
	withMapOrder(vec.Choices, func() {
		pots := BuildPots(&vec)
		if v.Property == "C16" {
			sig, msg = CheckPots(vec.Contrib, vec.Fold, pots)
			return
		}
		n := len(vec.Contrib)
		bank := make([]int64, n)
		score := make([]int, n)
		for i := range bank {
			bank[i] = 10
			score[i] = 100 * (vec.Strength[i] + 1)
		}
		res := Settle(pots, bank, vec.Fold, score)
		changed := make([]int64, n)
		for _, pr := range res.Players {
			changed[pr.Idx] = pr.Changed
		}
		sig, msg = CheckSettlement(vec.Contrib, vec.Fold, vec.Strength, changed)
	})
	if sig == v.Signature {
		return true, msg
	}
	return false, "oracle silent (" + sig + ")"
}
