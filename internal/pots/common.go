// Package pots holds the direct enumerations for the pot construction (C16)
// and the settlement (C02), plus the oracles shared with the in-play checks.
package pots

import (
	"fmt"
	"sort"

	"github.com/weedbox/pokerface/pot"
	"github.com/weedbox/pokerface/settlement"

	"verif/internal/refmodel"
)

// Vec is one enumeration point.
type Vec struct {
	Contrib  []int64 `json:"contrib"`
	Fold     []bool  `json:"fold"`
	Strength []int   `json:"strength,omitempty"`
	Order    []int   `json:"insertion_order,omitempty"`
	Choices  []int   `json:"map_order_choices,omitempty"`
	Prev     *Vec    `json:"computed_before,omitempty"`                   // pair of computations: the vector whose outcome was computed first (see pairs.go)
	Pair     string  `json:"pair_shape,omitempty"`                        // "held" | "interleaved"
	Reads    bool    `json:"pots_read_after_every_contributor,omitempty"` // GetPots is also called after every AddContributor (one list read while it is filled)
}

// BuildPots feeds the vector to the real pot.LevelList in the given insertion order.
func BuildPots(v *Vec) []*pot.Pot {
	ll := pot.NewLevelList()
	order := v.Order
	if order == nil {
		for i := range v.Contrib {
			order = append(order, i)
		}
	}
	for _, i := range order {
		ll.AddContributor(v.Contrib[i], i, v.Fold[i])
		if v.Reads {
			ll.GetPots()
		}
	}
	return ll.GetPots()
}

// CheckPots is the C16 oracle. It returns "" or (signature, message).
func CheckPots(contrib []int64, fold []bool, pots []*pot.Pot) (string, string) {
	var sumC, sumT int64
	for _, c := range contrib {
		sumC += c
	}
	var prev int64
	var prevSet []int
	for pi, p := range pots {
		if pi > 0 && p.Level <= prev {
			return "levels-not-increasing", fmt.Sprintf("pot %d level %d after level %d", pi, p.Level, prev)
		}
		if pi == 0 && p.Level < 0 {
			return "levels-not-increasing", "negative level"
		}
		var want int64
		var elig []int
		for i, c := range contrib {
			x := c - prev
			if x < 0 {
				x = 0
			}
			if x > p.Level-prev {
				x = p.Level - prev
			}
			want += x
			if !fold[i] && c >= p.Level {
				elig = append(elig, i)
			}
		}
		if p.Wager != p.Level-prev {
			return "pot-wager", fmt.Sprintf("pot %d (level %d..%d) is published with per-player amount %d", pi, prev, p.Level, p.Wager)
		}
		if p.Total != want {
			return "pot-total", fmt.Sprintf("pot %d (level %d..%d) total %d, players put in %d", pi, prev, p.Level, p.Total, want)
		}
		var got []int
		for idx, w := range p.Contributors {
			if idx < 0 || idx >= len(fold) {
				return "unknown-contributor", fmt.Sprintf("pot %d lists player %d", pi, idx)
			}
			if fold[idx] {
				continue
			}
			got = append(got, idx)
			if w != p.Level-prev {
				return "eligible-amount", fmt.Sprintf("pot %d lists player %d with %d, per-pot amount is %d", pi, idx, w, p.Level-prev)
			}
		}
		sort.Ints(got)
		if fmt.Sprint(got) != fmt.Sprint(elig) {
			return "eligible-set", fmt.Sprintf("pot %d (level %d) eligible %v, expected %v", pi, p.Level, got, elig)
		}
		if pi > 0 && !(len(elig) < len(prevSet)) {
			return "eligible-not-shrinking", fmt.Sprintf("pot %d eligible %v does not shrink from %v", pi, elig, prevSet)
		}
		prevSet = elig
		prev = p.Level
		sumT += p.Total
	}
	if sumT != sumC {
		return "totals-sum", fmt.Sprintf("pots add up to %d, players put in %d", sumT, sumC)
	}
	return "", ""
}

// Settle runs the real settlement exactly as CalculateGameResults does.
func Settle(pots []*pot.Pot, bankroll []int64, fold []bool, score []int) *settlement.Result {
	r := settlement.NewResult()
	for _, p := range pots {
		r.AddPot(p.Total, p.Levels)
	}
	for i := range bankroll {
		r.AddPlayer(i, bankroll[i])
		if fold[i] {
			r.UpdateScore(i, 0)
			continue
		}
		r.UpdateScore(i, score[i])
	}
	r.Calculate()
	return r
}

// CheckSettlement is the C02 oracle on the per-player changes.
func CheckSettlement(contrib []int64, fold []bool, strength []int, changed []int64) (string, string) {
	n := len(contrib)
	var sum int64
	for _, c := range changed {
		sum += c
	}
	if sum != 0 {
		return "not-zero-sum", fmt.Sprintf("changes %v sum to %d", changed, sum)
	}
	for i := 0; i < n; i++ {
		// nobody wins from a layer they did not pay into
		var cap int64
		for j := 0; j < n; j++ {
			if contrib[j] < contrib[i] {
				cap += contrib[j]
			} else {
				cap += contrib[i]
			}
		}
		if changed[i] > cap-contrib[i] {
			return "wins-from-unpaid-layer", fmt.Sprintf("player %d (put in %d) gains %d, the layers it paid into hold only %d", i, contrib[i], changed[i], cap-contrib[i])
		}
	}
	ok, constrained := refmodel.SettleAcceptable(contrib, fold, strength, changed)
	if !constrained {
		return "", ""
	}
	for i := 0; i < n; i++ {
		if fold[i] && changed[i] != -contrib[i] {
			return "folded-player-result", fmt.Sprintf("folded player %d put in %d and ends with change %d", i, contrib[i], changed[i])
		}
	}
	if !ok {
		// classify: is it only the split of odd chips, or are the wrong players paid?
		pots := refmodel.Pots(contrib, fold)
		exp := make([]int64, n)
		for _, p := range pots {
			w := refmodel.Winners(p, strength)
			for _, i := range w {
				exp[i] += p.Total / int64(len(w))
			}
		}
		// same players paid, each within (number of layers) chips of the even share => only the odd chips are misplaced
		uneven := true
		layers := int64(len(refmodel.Layers(contrib, fold)))
		for i := range exp {
			gross := changed[i] + contrib[i]
			d := gross - exp[i]
			if d < -layers || d > layers || (gross > 0) != (exp[i] > 0) {
				uneven = false
			}
		}
		sig := "wrong-winners-or-amounts"
		if uneven {
			sig = "uneven-split"
		}
		return sig, fmt.Sprintf("contributions %v fold %v strength %v: changes %v cannot be obtained by splitting every pot among its best eligible hands in shares differing by at most one chip", contrib, fold, strength, changed)
	}
	return "", ""
}
