package tourney

import (
	"fmt"
	"os"
	"sort"
	"strconv"
	"time"

	"verif/internal/explore"
)

func settings(tier string) []Setting {
	var out []Setting
	add := func(max, min int, mode string) {
		s := Setting{Max: max, Min: min, Mode: mode, R: 2*max + 2, MaxOut: 2, MaxTable: 5, Dev: 1}
		if tier == "thorough" {
			s.R = 2*max + 5
			s.Dev = 2
			s.MaxOut = 3
			s.MaxTable = 6
		}
		out = append(out, s)
	}
	hi := 5
	if tier == "thorough" {
		hi = 7
	}
	for max := 2; max <= hi; max++ {
		for min := 2; min <= max; min++ {
			add(max, min, "atomic")
			if tier == "thorough" || max <= 4 {
				add(max, min, "deferred")
			}
		}
	}
	if tier != "thorough" {
		out = append(out, Setting{Max: 9, Min: 6, Mode: "atomic", R: 20, MaxOut: 2, MaxTable: 5, Dev: 1})
	} else {
		for _, mm := range [][2]int{{9, 6}, {9, 9}, {8, 8}, {9, 2}, {8, 5}} {
			add(mm[0], mm[1], "atomic")
			add(mm[0], mm[1], "deferred")
		}
	}
	return out
}

// budget returns the wall-clock budget of a regulator check (VERIF_BUDGET_S overrides): when it
// runs out, the remaining settings are skipped and the run reports exhaustive:false with what was completed.
func budget(tier string) time.Duration {
	if v, err := strconv.Atoi(os.Getenv("VERIF_BUDGET_S")); err == nil && v > 0 {
		return time.Duration(v) * time.Second
	}
	if tier == "thorough" {
		return 30 * time.Minute
	}
	return 10 * time.Minute
}

func runAll(rep *explore.Report, prop, tier string, sweeps bool) {
	deadline := time.Now().Add(budget(tier))
	all := settings(tier)
	// smallest settings first, so that a budget overrun cuts the largest ones
	sort.SliceStable(all, func(i, j int) bool { return all[i].Max*all[i].R < all[j].Max*all[j].R })
	done := 0
	// first, alone in the process and on one worker: small settings with a second tournament (its own
	// regulator) living beside the one under test
	before := rep.ViolationCount()
	for _, s := range []Setting{
		{Max: 2, Min: 2, Mode: "atomic", R: 6, MaxOut: 2, MaxTable: 4, Dev: 0, Beside: true},
		{Max: 3, Min: 2, Mode: "deferred", R: 7, MaxOut: 2, MaxTable: 4, Dev: 0, Beside: true},
	} {
		if sweeps && s.Mode != "atomic" {
			continue
		}
		// these settings have about a thousand states; a regulator whose counters drift makes the space
		// unbounded, so the search is cut at 30000 states (and the sweeps run on what was found)
		e := &Explorer{Prop: prop, Rep: rep, S: s, Deadline: deadline, Workers: 1, MaxState: 30000}
		e.Run()
		if sweeps {
			e.Sweeps(4)
		}
		rep.Add("settings_with_a_second_tournament_in_process", 1)
	}
	if rep.ViolationCount() > before {
		rep.Cap("the exploration beside a second tournament violated the property: the rest of the check was skipped")
		return
	}
	for _, s := range all {
		if sweeps && s.Mode != "atomic" {
			continue
		}
		if time.Now().After(deadline) {
			rep.Cap(fmt.Sprintf("time budget reached: setting %d/%d %s not explored", s.Max, s.Min, s.Mode))
			rep.Add("settings_skipped", 1)
			continue
		}
		e := &Explorer{Prop: prop, Rep: rep, S: s, Deadline: deadline}
		e.Run()
		if sweeps && !e.capped {
			e.Sweeps(4)
		}
		done++
	}
	rep.Set("settings_completed", int64(done))
	rep.Sample(map[string]any{"setting": map[string]int{"max": 9, "min": 6}, "history": []string{"Add(9)", "Status(1)", "Add(3)", "Sync(0,0)", "Sync(1,1)"}})
	rep.Assumption("player names are abstracted in the state key: the regulator only appends, slices and passes names on, so states equal up to renaming have isomorphic futures; identities are re-checked concretely on every executed transition")
	rep.Assumption("tables follow instructions: they seat whoever they are given, release exactly the requested number (longest-seated first) and close when told to break")
}

func RunC09(rep *explore.Report, tier string) {
	rep.Set("rule", "every history of AddPlayers(batch) / SetStatus / SyncState(table, eliminations) / SyncState(unknown) / deferred ReleasePlayers over all (max, min) settings of the tier, registrants and tables capped as stated, map iteration order of the regulator's table map with bounded deviations; reference model refTournament (who is where + counters) after every transition; distinct_nontrivial = callback invocations observed")
	runAll(rep, "C09", tier, false)
	rep.Set("distinct_nontrivial", rep.Get("callbacks_observed"))
	rep.Set("evaluations", rep.Get("executions"))
}

func RunC19(rep *explore.Report, tier string) {
	rep.Set("rule", "same exploration as C09 with the capacity oracle inside every callback, plus the one-shot initial allocation for every 2 <= min <= max <= 12 and 0..6*max registrants (registered in one batch before the start, and after the start); distinct_nontrivial = tables opened")
	allocationSweep(rep)
	runAll(rep, "C19", tier, false)
	rep.Set("distinct_nontrivial", rep.Get("tables_opened_in_allocation_sweep"))
	rep.Set("evaluations", rep.Get("executions")+rep.Get("allocation_sweep_cases"))
}

func RunC20(rep *explore.Report, tier string) {
	rep.Set("rule", "from every state of the C09 exploration (atomic environment) with the competition started and at least one table: sweeps of SyncState(t, 0) over all live tables in every order (every permutation up to 4 tables, rotations and reversals beyond); the sweep-to-sweep graph must have no cycle through a non-settled state and no chain longer than players + tables; every break must hand back all players; distinct_nontrivial = sweeps executed")
	runAll(rep, "C20", tier, true)
	rep.Set("distinct_nontrivial", rep.Get("sweeps_executed"))
	rep.Set("evaluations", rep.Get("sweeps_executed"))
}

// allocationSweep: the initial allocation alone, for a large settings grid.
func allocationSweep(rep *explore.Report) {
	var cases, opened int64
	for max := 2; max <= 12; max++ {
		for min := 2; min <= max; min++ {
			for n := 0; n <= 6*max; n++ {
				for variant := 0; variant < 2; variant++ {
					s := Setting{Max: max, Min: min, Mode: "atomic", R: n}
					var steps []Step
					if variant == 0 {
						if n > 0 {
							steps = append(steps, Step{Kind: "Add", A: n})
						}
						steps = append(steps, Step{Kind: "Status", A: 1})
					} else {
						steps = append(steps, Step{Kind: "Status", A: 1})
						if n > 0 {
							steps = append(steps, Step{Kind: "Add", A: n})
						}
					}
					w := NewWorld(s)
					e := &Explorer{Prop: "C19", Rep: rep, S: s}
					for i, st := range steps {
						res := w.Do(st)
						e.check(steps[:i+1], w, res)
					}
					cases++
					opened += int64(w.everOpened)
				}
			}
		}
	}
	rep.Add("allocation_sweep_cases", cases)
	rep.Add("tables_opened_in_allocation_sweep", opened)
	rep.Add("states", cases)
	rep.Add("transitions", cases*2)
	rep.Set("allocation_sweep", fmt.Sprintf("2<=min<=max<=12, 0..6*max registrants, before/after start: %d cases", cases))
}
