// Package tourney explores the real tournament regulator together with an
// environment of tables that follow its instructions (C09, C19, C20).
package tourney

import (
	"fmt"
	"sort"
	"strconv"
	"strings"

	reg "github.com/weedbox/pokerface/regulator"
	"github.com/weedbox/pokerface/verifshim/vrt"

	"verif/internal/explore"
)

// Setting is one regulator configuration plus the environment mode.
type Setting struct {
	Max      int    `json:"max_players_per_table"`
	Min      int    `json:"min_initial_players"`
	Mode     string `json:"mode"`        // "atomic": releases are handed back at once; "deferred": ReleasePlayers is a separate step
	R        int    `json:"registrants"` // cap on registered players
	MaxOut   int    `json:"max_eliminations_per_sync"`
	MaxTable int    `json:"max_tables"`
	Dev      int    `json:"map_order_deviations"`
	Beside   bool   `json:"second_tournament_in_process,omitempty"` // a second regulator is created and driven along a script after NewRegulator and after every step
}

// Step is one operation of the alphabet, with the environment answers it ran under.
type Step struct {
	Kind    string // Add Status Sync SyncUnknown Release
	A       int    // Add: batch size; Status: new status; Sync/Release: table number
	B       int    // Sync: eliminations
	Choices []int
}

func (s Step) Label() string {
	var l string
	switch s.Kind {
	case "Add":
		l = fmt.Sprintf("Add(%d)", s.A)
	case "Status":
		l = fmt.Sprintf("Status(%d)", s.A)
	case "Sync":
		l = fmt.Sprintf("Sync(%d,%d)", s.A, s.B)
	case "Release":
		l = fmt.Sprintf("Release(%d)", s.A)
	default:
		l = s.Kind
	}
	nz := false
	for _, c := range s.Choices {
		if c != 0 {
			nz = true
		}
	}
	if nz {
		parts := make([]string, len(s.Choices))
		for i, c := range s.Choices {
			parts[i] = strconv.Itoa(c)
		}
		l += "@" + strings.Join(parts, ".")
	}
	return l
}

func ParseStep(l string) (Step, error) {
	var s Step
	if i := strings.Index(l, "@"); i >= 0 {
		for _, f := range strings.Split(l[i+1:], ".") {
			c, err := strconv.Atoi(f)
			if err != nil {
				return s, err
			}
			s.Choices = append(s.Choices, c)
		}
		l = l[:i]
	}
	i := strings.Index(l, "(")
	if i < 0 {
		s.Kind = l
		return s, nil
	}
	s.Kind = l[:i]
	args := strings.Split(strings.TrimSuffix(l[i+1:], ")"), ",")
	var err error
	if s.A, err = strconv.Atoi(args[0]); err != nil {
		return s, err
	}
	if len(args) > 1 {
		if s.B, err = strconv.Atoi(args[1]); err != nil {
			return s, err
		}
	}
	return s, nil
}

func tableID(n int) string { return fmt.Sprintf("t%03d", n) }

type event struct {
	kind    string // request | assign
	table   string
	players []string
}

// World is the regulator under test plus the environment's own bookkeeping
// (the reference model "who is where").
type World struct {
	S   Setting
	R   reg.Regulator
	Tab map[string][]string // live environment tables: members
	Pen map[string][]string // deferred mode: players released by the table, not yet handed back
	Loc map[string]string   // reference: "queue" | table id | "inflight" | "eliminated"

	nextPlayer int
	nextTable  int
	registered int
	everOpened int

	// per-operation observations
	events   []event
	problems []problem
	firstOp  bool // the running operation started with zero tables

	lastBroken string // id of the table that broke most recently ("" = none yet)

	// slices the regulator handed out (callback arguments, SyncState results), kept by the tables as
	// they were given, next to a private copy: what a table was told must not change afterwards
	kept []keptSlice
}

type keptSlice struct {
	via   string
	given []string
	copy  []string
}

func (w *World) keep(via string, given []string) {
	if len(given) == 0 {
		return
	}
	if len(w.kept) >= 24 {
		w.kept = w.kept[1:]
	}
	w.kept = append(w.kept, keptSlice{via, given, append([]string{}, given...)})
}

func (w *World) checkKept() {
	for _, k := range w.kept {
		if fmt.Sprint(k.given) != fmt.Sprint(k.copy) {
			w.bad("handed-out-players-changed", "the players handed out through %s were %v; the same slice now reads %v", k.via, k.copy, k.given)
			return
		}
	}
}

type problem struct{ prop, sig, msg string }

func (w *World) bad(sig, format string, a ...any) {
	w.problems = append(w.problems, problem{"C09", sig, fmt.Sprintf(format, a...)})
}

func (w *World) badP(prop, sig, format string, a ...any) {
	w.problems = append(w.problems, problem{prop, sig, fmt.Sprintf(format, a...)})
}

// capacity is the C19 oracle, evaluated inside every callback and after every seating.
func (w *World) capacity(kind, id string, handed int) {
	if n := len(w.Tab[id]); n > w.S.Max {
		w.badP("C19", "over-capacity:"+kind, "table %s is asked to hold %d players (%d handed out now), the maximum is %d", id, n, handed, w.S.Max)
	}
	if kind == "open" {
		s := w.snapshot()
		if s.Status == 0 {
			w.badP("C19", "table-opened-before-start", "table %s opened while the competition is still pending", id)
		}
		if s.PlayerCount < w.S.Min {
			w.badP("C19", "table-opened-before-minimum", "table %s opened with only %d registered players, minimum is %d", id, s.PlayerCount, w.S.Min)
		}
		if w.firstOp && handed < w.S.Min {
			w.badP("C19", "initial-table-below-minimum", "the initial allocation opens table %s with %d players, minimum is %d", id, handed, w.S.Min)
		}
	}
}

func NewWorld(s Setting) *World {
	w := &World{S: s, Tab: map[string][]string{}, Pen: map[string][]string{}, Loc: map[string]string{}}
	w.R = reg.NewRegulator(
		reg.MaxPlayersPerTable(s.Max),
		reg.MinInitialPlayers(s.Min),
		reg.WithRequestTableFn(func(players []string) (string, error) {
			w.nextTable++
			id := tableID(w.nextTable)
			w.everOpened++
			w.events = append(w.events, event{"request", id, append([]string{}, players...)})
			w.keep("requestTableFn", players)
			w.take(players, id, "requestTableFn")
			w.Tab[id] = append([]string{}, players...)
			w.capacity("open", id, len(players))
			return id, nil
		}),
		reg.WithAssignPlayersFn(func(id string, players []string) error {
			w.events = append(w.events, event{"assign", id, append([]string{}, players...)})
			w.keep("assignPlayersFn", players)
			if _, ok := w.Tab[id]; !ok {
				w.bad("callback-unknown-table", "assignPlayersFn names table %s, which does not exist (any more)", id)
				return nil
			}
			w.take(players, id, "assignPlayersFn")
			w.Tab[id] = append(w.Tab[id], players...)
			w.capacity("assign", id, len(players))
			return nil
		}),
	)
	if s.Beside {
		otherTournament()
	}
	return w
}

// otherTournament is the second tournament of a "beside" exploration: its own regulator (3 per
// table, 2 to start), its own tables, a fixed script. It is environment: what happens to it is not
// judged. It runs on a goroutine of its own (another OS thread), so the environment answers that
// are being enumerated for the regulator under test are not consumed by it.
func otherTournament() {
	done := make(chan struct{})
	go func() {
		defer close(done)
		defer func() { recover() }()
		n := 0
		tables := []string{}
		r := reg.NewRegulator(
			reg.MaxPlayersPerTable(3),
			reg.MinInitialPlayers(2),
			reg.WithRequestTableFn(func(players []string) (string, error) {
				n++
				id := fmt.Sprintf("other-%d", n)
				tables = append(tables, id)
				return id, nil
			}),
			reg.WithAssignPlayersFn(func(id string, players []string) error { return nil }),
		)
		r.AddPlayers([]string{"o1", "o2", "o3", "o4", "o5"})
		r.SetStatus(reg.CompetitionStatus(1))
		r.AddPlayers([]string{"o6", "o7"})
		for _, t := range append([]string{}, tables...) {
			r.SyncState(t, 2)
		}
		r.SetStatus(reg.CompetitionStatus(2))
		for _, t := range append([]string{}, tables...) {
			if rel, _, err := r.SyncState(t, 1); err == nil && rel > 0 {
				r.ReleasePlayers(t, []string{"o1", "o2", "o3"}[:min(rel, 3)])
			}
		}
		r.AddPlayers([]string{"late"})
	}()
	<-done
}

// take moves players from the queue to table id in the reference model.
func (w *World) take(players []string, id, via string) {
	seen := map[string]bool{}
	for _, p := range players {
		if seen[p] {
			w.bad("player-handed-out-twice", "%s hands out %s twice in one list", via, p)
		}
		seen[p] = true
		switch loc := w.Loc[p]; loc {
		case "queue":
		case "":
			w.bad("unknown-player-handed-out", "%s hands out %s, who never registered", via, p)
		default:
			w.bad("player-handed-out-twice", "%s hands out %s, who is not waiting but %s", via, p, loc)
		}
		w.Loc[p] = id
	}
}

func (w *World) liveTables() []string {
	var ids []string
	for id := range w.Tab {
		ids = append(ids, id)
	}
	sort.Strings(ids)
	return ids
}

func (w *World) snapshot() reg.VerifState {
	s, ok := reg.VerifSnapshot(w.R)
	if !ok {
		panic("tourney: VerifSnapshot does not know this regulator")
	}
	sort.Slice(s.Tables, func(i, j int) bool { return s.Tables[i].ID < s.Tables[j].ID })
	return s
}

// Key is the abstract state: player names are abstracted away (the regulator
// never inspects them), tables are identified by creation order.
func (w *World) Key() string {
	s := w.snapshot()
	var b strings.Builder
	fmt.Fprintf(&b, "st%d pc%d tc%d q%d reg%d|", s.Status, s.PlayerCount, s.TableCount, len(s.WaitingQueue), w.registered)
	ids := map[string]bool{}
	for _, t := range s.Tables {
		ids[t.ID] = true
	}
	for id := range w.Tab {
		ids[id] = true
	}
	var all []string
	for id := range ids {
		all = append(all, id)
	}
	sort.Strings(all)
	rt := map[string]reg.VerifTable{}
	for _, t := range s.Tables {
		rt[t.ID] = t
	}
	for _, id := range all {
		t, inReg := rt[id]
		m, inEnv := w.Tab[id]
		fmt.Fprintf(&b, "[%v%v pc%d rq%d m%d pen%d]", inReg, inEnv, t.PlayerCount, t.Required, len(m), len(w.Pen[id]))
		_ = m
	}
	return b.String()
}

func (w *World) nthTable(n int) (string, bool) {
	ids := w.liveTables()
	if n < 0 || n >= len(ids) {
		return "", false
	}
	return ids[n], true
}

// Enabled lists the operations of the alphabet in the current state.
func (w *World) Enabled() []Step {
	var out []Step
	s := w.snapshot()
	if s.Status == 2 {
		out = append(out, Step{Kind: "Add", A: 1}, Step{Kind: "Add", A: w.S.Max}) // must be refused
	} else {
		for b := 1; b <= w.S.R-w.registered; b++ {
			out = append(out, Step{Kind: "Add", A: b})
		}
	}
	for st := s.Status; st <= 2; st++ {
		out = append(out, Step{Kind: "Status", A: st})
	}
	ids := w.liveTables()
	for i, id := range ids {
		if len(w.Pen[id]) > 0 {
			out = append(out, Step{Kind: "Release", A: i})
			continue // a table hands back its released players before it syncs again
		}
		maxOut := w.S.MaxOut
		if maxOut > len(w.Tab[id]) {
			maxOut = len(w.Tab[id])
		}
		for o := 0; o <= maxOut; o++ {
			out = append(out, Step{Kind: "Sync", A: i, B: o})
		}
	}
	out = append(out, Step{Kind: "SyncUnknown"})
	return out
}

// Result of one executed step.
type Result struct {
	Err      error
	Panic    string
	Release  int
	NewPl    []string
	Broke    bool
	Problems []problem
	Events   []event
	Quiet    bool // Sync: returned (0, []) and broke nothing
}

// Do executes one step (under the chooser attached by the caller) and checks
// the step-local part of the reference model.
func (w *World) Do(st Step) (res Result) {
	w.events, w.problems = nil, nil
	pre := w.snapshot()
	w.firstOp = pre.TableCount == 0
	defer func() {
		if r := recover(); r != nil {
			res.Panic = fmt.Sprint(r)
		}
		if w.S.Beside {
			otherTournament()
		}
		w.checkKept()
		res.Problems = w.problems
		res.Events = w.events
	}()
	switch st.Kind {
	case "Add":
		var names []string
		for i := 0; i < st.A; i++ {
			names = append(names, fmt.Sprintf("p%03d", w.nextPlayer+1+i))
		}
		for _, p := range names {
			w.Loc[p] = "queue" // registering: from now on they must be waiting or seated
		}
		arg, reuse := lend(names)
		err := w.R.AddPlayers(arg)
		reuse()
		res.Err = err
		if pre.Status == 2 {
			for _, p := range names {
				delete(w.Loc, p)
			}
			if err == nil {
				w.bad("registration-after-deadline-accepted", "AddPlayers after the registration deadline returned nil")
			}
			if post := w.snapshot(); fmt.Sprint(post) != fmt.Sprint(pre) {
				w.bad("refused-registration-changed-state", "AddPlayers after the deadline was refused but changed the regulator: %v -> %v", pre, post)
			}
			return
		}
		if err != nil {
			w.bad("registration-refused", "AddPlayers(%d) before the deadline failed: %v", st.A, err)
		}
		w.nextPlayer += st.A
		w.registered += st.A
	case "Status":
		w.R.SetStatus(reg.CompetitionStatus(st.A))
	case "SyncUnknown":
		// refused calls: a table id the regulator never knew, and (when there is one) a table it broke
		// earlier reporting once more - with and without eliminations. Each must fail and change nothing.
		ids := []string{"no-such-table"}
		if w.lastBroken != "" {
			ids = append(ids, w.lastBroken)
		}
		for _, id := range ids {
			if w.R.GetTable(id) != nil {
				if id == "no-such-table" {
					w.bad("unknown-table-accepted", "GetTable on an unknown table returned a table")
				}
				continue
			}
			for _, out := range []int{0, 1, 2} {
				rel, pl, err := w.R.SyncState(id, out)
				res.Err = err
				if err == nil {
					w.bad("unknown-table-accepted", "SyncState(%s, %d) on a table the regulator does not have returned nil (release %d, players %v)", id, out, rel, pl)
				}
				post := w.snapshot()
				if fmt.Sprint(post) != fmt.Sprint(pre) {
					w.bad("refused-sync-changed-state", "SyncState(%s, %d) was refused but changed the regulator: %v -> %v", id, out, pre, post)
					break
				}
			}
		}
	case "Release":
		id, ok := w.nthTable(st.A)
		if !ok {
			panic("tourney: no such table")
		}
		w.handBack(id, &res)
	case "Sync":
		id, ok := w.nthTable(st.A)
		if !ok {
			panic("tourney: no such table")
		}
		// the table eliminates st.B players (the last ones) and reports
		m := w.Tab[id]
		for _, p := range m[len(m)-st.B:] {
			w.Loc[p] = "eliminated"
		}
		w.Tab[id] = m[:len(m)-st.B]
		rel, pl, err := w.R.SyncState(id, st.B)
		res.Err, res.Release, res.NewPl = err, rel, pl
		if err != nil {
			w.bad("sync-refused", "SyncState(%s, %d) on a live table failed: %v", id, st.B, err)
			return
		}
		if len(pl) > 0 {
			w.events = append(w.events, event{"sync-seat", id, append([]string{}, pl...)})
			w.keep("SyncState", pl)
			w.take(pl, id, "SyncState")
			w.Tab[id] = append(w.Tab[id], pl...)
			w.capacity("sync", id, len(pl))
		}
		res.Broke = w.R.GetTable(id) == nil
		res.Quiet = rel == 0 && len(pl) == 0 && !res.Broke
		if rel < 0 || rel > len(w.Tab[id]) {
			w.bad("release-count-out-of-range", "SyncState(%s) asks to release %d of %d players", id, rel, len(w.Tab[id]))
			return
		}
		if res.Broke && rel != len(w.Tab[id]) {
			w.badP("C20", "break-does-not-release-all", "table %s is told to break but to hand back %d of its %d players", id, rel, len(w.Tab[id]))
		}
		if rel > 0 {
			// the table picks the players who have been there longest
			mm := w.Tab[id]
			out := append([]string{}, mm[:rel]...)
			w.Tab[id] = append([]string{}, mm[rel:]...)
			for _, p := range out {
				w.Loc[p] = "inflight"
			}
			w.Pen[id] = out
		}
		// a broken table is gone: it hands back at once in both modes
		if res.Broke || (w.S.Mode == "atomic" && len(w.Pen[id]) > 0) {
			w.handBack(id, &res)
		}
	default:
		panic("tourney: bad step " + st.Kind)
	}
	return
}

// lend hands a batch of player ids to the regulator the way a caller with its own buffer does: the
// slice is a window of a larger array (spare capacity behind it), and once the call has returned the
// caller uses the buffer for something else. The regulator must have taken what it needs by then.
func lend(ids []string) (arg []string, reuse func()) {
	buf := make([]string, len(ids), len(ids)+4)
	copy(buf, ids)
	return buf, func() {
		full := buf[:cap(buf)]
		for i := range full {
			full[i] = fmt.Sprintf("caller-buffer-reused-%d", i)
		}
	}
}

// handBack calls ReleasePlayers for the players table id was told to release.
func (w *World) handBack(id string, res *Result) {
	out := w.Pen[id]
	delete(w.Pen, id)
	broke := w.R.GetTable(id) == nil
	if broke {
		if len(w.Tab[id]) != 0 {
			w.badP("C20", "break-does-not-release-all", "broken table %s keeps %d players", id, len(w.Tab[id]))
		}
		delete(w.Tab, id)
		w.lastBroken = id
	}
	for _, p := range out {
		w.Loc[p] = "queue"
	}
	if len(out) == 0 {
		return
	}
	arg, reuse := lend(out)
	err := w.R.ReleasePlayers(id, arg)
	reuse()
	if err != nil {
		res.Err = err
		w.bad("release-refused", "ReleasePlayers(%s, %v) failed: %v", id, out, err)
	}
	if broke {
		// each player of a broken table must now be queued (in the regulator's own queue) or on another live table
		queued := map[string]bool{}
		for _, q := range w.snapshot().WaitingQueue {
			queued[q] = true
		}
		for _, p := range out {
			l := w.Loc[p]
			_, onLive := w.Tab[l]
			if !(onLive && l != id) && !queued[p] {
				w.badP("C20", "broken-table-player-lost", "player %s of broken table %s was handed back but is neither in the waiting queue nor on another live table", p, id)
			}
			if l != "queue" && (l == id || w.Tab[l] == nil) {
				w.badP("C20", "broken-table-player-lost", "player %s of broken table %s is neither queued nor on a live table (%s)", p, id, l)
			}
		}
	}
}

// Invariant is the state part of refTournament, evaluated after every step.
func (w *World) Invariant() []problem {
	var out []problem
	add := func(sig, f string, a ...any) { out = append(out, problem{"C09", sig, fmt.Sprintf(f, a...)}) }
	s := w.snapshot()
	// the regulator's queue must be exactly the players the reference has waiting
	want := map[string]bool{}
	alive := 0
	for p, l := range w.Loc {
		if l == "queue" {
			want[p] = true
		}
		if l != "eliminated" {
			alive++
		}
	}
	got := map[string]int{}
	for _, p := range s.WaitingQueue {
		got[p]++
	}
	for p, n := range got {
		if n > 1 {
			add("queue-duplicate", "player %s is in the waiting queue %d times", p, n)
		}
		if !want[p] {
			add("queue-holds-seated-player", "player %s is in the waiting queue but the reference has it %s", p, w.Loc[p])
		}
	}
	for p := range want {
		if got[p] == 0 {
			add("player-dropped", "player %s is waiting for a seat but is in no table and not in the waiting queue", p)
		}
	}
	// each table's members are exactly those the reference places there
	members := 0
	seenP := map[string]string{}
	for id, m := range w.Tab {
		for _, p := range m {
			if prev, dup := seenP[p]; dup {
				add("player-in-two-tables", "player %s sits at %s and %s", p, prev, id)
			}
			seenP[p] = id
			if w.Loc[p] != id {
				add("reference-mismatch", "player %s sits at %s, reference says %s", p, id, w.Loc[p])
			}
		}
		members += len(m)
	}
	inflight := 0
	for _, m := range w.Pen {
		inflight += len(m)
	}
	if s.PlayerCount != alive {
		add("player-total", "regulator counts %d players, %d registered players have not been eliminated", s.PlayerCount, alive)
	}
	if w.R.GetPlayerCount() != s.PlayerCount {
		add("player-total", "GetPlayerCount() = %d differs from the private counter %d", w.R.GetPlayerCount(), s.PlayerCount)
	}
	if s.TableCount != len(w.Tab) || len(s.Tables) != len(w.Tab) || w.R.GetTableCount() != s.TableCount {
		add("table-count", "regulator counts %d tables (map holds %d), %d tables are open", s.TableCount, len(s.Tables), len(w.Tab))
	}
	for _, t := range s.Tables {
		m, ok := w.Tab[t.ID]
		if !ok {
			add("table-count", "regulator knows table %s, which is not open", t.ID)
			continue
		}
		if t.PlayerCount != len(m) {
			add("table-player-count", "regulator counts %d players at %s, %d sit there (%d more are on their way back)", t.PlayerCount, t.ID, len(m), len(w.Pen[t.ID]))
		}
		if g := w.R.GetTable(t.ID); g == nil || g.PlayerCount != t.PlayerCount {
			add("table-player-count", "GetTable(%s) disagrees with the private table sheet", t.ID)
		}
	}
	_ = members
	_ = inflight
	return out
}

// Replay builds a fresh world and applies steps; the caller's goroutine must
// be locked to its OS thread.
func Replay(s Setting, steps []Step) (*World, Result) {
	w := NewWorld(s)
	var last Result
	for _, st := range steps {
		ch := vrt.NewChooser(st.Choices)
		explore.WithChooser(ch, func() { last = w.Do(st) })
		if ch.Err != "" {
			panic("tourney: replay divergence: " + ch.Err)
		}
	}
	return w, last
}
