package tourney

import (
	"encoding/json"
	"fmt"
	"runtime"
	"sync"
	"sync/atomic"
	"time"

	"github.com/weedbox/pokerface/verifshim/vrt"

	"verif/internal/explore"
)

type node struct {
	hist []Step
	key  string
}

// Explorer runs the regulator BFS for one setting and one property.
type Explorer struct {
	Prop     string
	Rep      *explore.Report
	S        Setting
	Deadline time.Time
	Workers  int // 0 = all cores
	MaxState int // 0 = 4,000,000
	capped   bool

	bfs      *explore.BFS[*node]
	execs    int64
	callback int64
	syncs    int64
	breaks   int64
	refusals int64
}

func (e *Explorer) report(hist []Step, sig, msg string) {
	var labels []string
	for _, s := range hist {
		labels = append(labels, s.Label())
	}
	if e.Rep.Skip(sig, len(labels)) {
		return
	}
	cfg, _ := json.Marshal(e.S)
	v := &explore.Violation{Property: e.Prop, Engine: "tourney", Signature: sig, Message: msg, Config: cfg, History: labels}
	v.Confirm = func() (bool, string) { return ReplayViolation(v) }
	e.Rep.Violation(v)
}

// check turns the observations of one executed step into violations of e.Prop; it reports whether any was found.
func (e *Explorer) check(hist []Step, w *World, res Result) bool {
	found := false
	if res.Panic != "" {
		if e.Prop == "C09" {
			e.report(hist, "panic:"+hist[len(hist)-1].Kind, "regulator panics: "+res.Panic)
		}
		return true
	}
	probs := res.Problems
	if e.Prop == "C09" {
		probs = append(probs, w.Invariant()...)
	}
	for _, p := range probs {
		if p.prop != e.Prop {
			continue
		}
		found = true
		e.report(hist, p.sig, p.msg)
	}
	return found
}

func (e *Explorer) Run() {
	maxStates := 4000000
	if e.MaxState > 0 {
		maxStates = e.MaxState
	}
	b := &explore.BFS[*node]{Workers: e.Workers, MaxStates: maxStates, Deadline: e.Deadline, KeyOf: func(n *node) explore.Key { return explore.HashKey([]byte(n.key)) }}
	e.bfs = b
	w0 := NewWorld(e.S)
	init := &node{key: w0.Key()}
	b.Run([]*node{init}, func(nd explore.Node[*node], emit func(string, *node) (int32, bool)) {
		n := nd.State
		w, _ := Replay(e.S, n.hist)
		if len(w.Tab) > e.S.MaxTable {
			e.Rep.Cap(fmt.Sprintf("more than %d tables open (setting %d/%d): state not expanded", e.S.MaxTable, e.S.Max, e.S.Min))
			return
		}
		for _, st := range w.Enabled() {
			st := st
			ex, _ := explore.Deviations(e.S.Dev, 0, func(ch *vrt.Chooser) {
				w2, _ := Replay(e.S, n.hist)
				var res Result
				explore.WithChooser(ch, func() { res = w2.Do(st) })
				st2 := st
				st2.Choices = ch.Choices()
				hist := append(append([]Step{}, n.hist...), st2)
				atomic.AddInt64(&e.callback, int64(len(res.Events)))
				if st.Kind == "Sync" {
					atomic.AddInt64(&e.syncs, 1)
					if res.Broke {
						atomic.AddInt64(&e.breaks, 1)
					}
				}
				if res.Err != nil {
					atomic.AddInt64(&e.refusals, 1)
				}
				if e.check(hist, w2, res) {
					return // counterexample, not a starting point
				}
				emit(st2.Label(), &node{hist: hist, key: w2.Key()})
			})
			atomic.AddInt64(&e.execs, int64(ex))
		}
	})
	e.Rep.Add("states", b.States)
	e.Rep.Add("transitions", b.Transitions)
	e.Rep.Add("traces_validated_against_impl", e.execs)
	e.Rep.Add("executions", e.execs)
	e.Rep.Add("configurations", 1)
	e.Rep.Add("callbacks_observed", e.callback)
	e.Rep.Add("syncs", e.syncs)
	e.Rep.Add("table_breaks", e.breaks)
	e.Rep.Add("refusals_observed", e.refusals)
	e.Rep.Max("max_depth", int64(b.MaxDepth))
	if b.Capped != "" {
		e.capped = true
		e.Rep.Cap(fmt.Sprintf("%s in setting %d/%d %s (states=%d, completed depth=%d)", b.Capped, e.S.Max, e.S.Min, e.S.Mode, b.States, b.MaxDepth))
	}
}

func histOf(b *explore.BFS[*node], id int32) []Step {
	var out []Step
	for _, l := range b.Path(id) {
		s, err := ParseStep(l)
		if err != nil {
			panic(err)
		}
		out = append(out, s)
	}
	return out
}

func permsOf(n int, full bool) [][]int {
	if full {
		var rec func(cur []int, used []bool)
		var out [][]int
		rec = func(cur []int, used []bool) {
			if len(cur) == n {
				out = append(out, append([]int{}, cur...))
				return
			}
			for i := 0; i < n; i++ {
				if !used[i] {
					used[i] = true
					rec(append(cur, i), used)
					used[i] = false
				}
			}
		}
		rec(nil, make([]bool, n))
		return out
	}
	var out [][]int
	for r := 0; r < n; r++ {
		a, d := make([]int, n), make([]int, n)
		for i := 0; i < n; i++ {
			a[i] = (r + i) % n
			d[i] = (r - i + 2*n) % n
		}
		out = append(out, a, d)
	}
	return out
}

// Sweeps builds the sweep-to-sweep graph over all states found by Run and
// checks that rebalancing settles (C20). Run must have been called in atomic mode.
func (e *Explorer) Sweeps(fullPermsUpTo int) {
	b := e.bfs
	n := int(b.States)
	type edges struct {
		succ    []int32
		settled bool
		players int
		tables  int
		applies bool
	}
	graph := make([]edges, n)
	var unknown, sweeps int64
	var next int64 = -1
	var wg sync.WaitGroup
	for wk := 0; wk < runtime.NumCPU(); wk++ {
		wg.Add(1)
		go func() {
			defer wg.Done()
			runtime.LockOSThread()
			defer runtime.UnlockOSThread()
			for {
				id := int32(atomic.AddInt64(&next, 1))
				if int(id) >= n {
					return
				}
				hist := histOf(b, id)
				w, _ := Replay(e.S, hist)
				snap := w.snapshot()
				if snap.Status == 0 || len(w.Tab) == 0 || len(w.Pen) > 0 || len(w.Tab) > e.S.MaxTable {
					continue
				}
				k := len(w.Tab)
				g := &graph[id]
				g.applies, g.settled, g.players, g.tables = true, true, snap.PlayerCount, k
				key0 := w.Key()
				for _, perm := range permsOf(k, k <= fullPermsUpTo) {
					w2, _ := Replay(e.S, hist)
					ids := w2.liveTables()
					quiet := true
					sh := append([]Step{}, hist...)
					for _, ti := range perm {
						tid := ids[ti]
						// position of the table among the tables still open
						pos := -1
						for i, x := range w2.liveTables() {
							if x == tid {
								pos = i
							}
						}
						if pos < 0 {
							continue // broken earlier in this sweep
						}
						st := Step{Kind: "Sync", A: pos, B: 0}
						var res Result
						explore.WithChooser(vrt.NewChooser(nil), func() { res = w2.Do(st) })
						sh = append(sh, st)
						if !res.Quiet {
							quiet = false
						}
						e.check(sh, w2, res)
					}
					atomic.AddInt64(&sweeps, 1)
					key1 := w2.Key()
					if !(quiet && key1 == key0) {
						g.settled = false
					}
					tid, ok := b.Lookup(explore.HashKey([]byte(key1)))
					if !ok {
						atomic.AddInt64(&unknown, 1)
						continue
					}
					dup := false
					for _, s := range g.succ {
						if s == tid {
							dup = true
						}
					}
					if !dup {
						g.succ = append(g.succ, tid)
					}
				}
			}
		}()
	}
	wg.Wait()
	// longest chain of non-settled sweeps; a cycle through a non-settled state is a violation
	height := make([]int32, n)
	color := make([]uint8, n) // 0 new, 1 on stack, 2 done
	var maxH int32
	var nApplies, nSettled int64
	var visit func(id int32) int32
	cycleReported := false
	visit = func(id int32) int32 {
		g := &graph[id]
		if !g.applies || g.settled {
			return 0
		}
		if color[id] == 2 {
			return height[id]
		}
		if color[id] == 1 {
			if !cycleReported {
				cycleReported = true
				e.report(histOf(b, id), "rebalancing-cycle", fmt.Sprintf("repeated sweeps return to this state without ever settling (setting %d/%d)", e.S.Max, e.S.Min))
			}
			return 0
		}
		color[id] = 1
		var h int32
		for _, s := range g.succ {
			if s == id {
				// a sweep that changes nothing but is not quiet would loop forever
				if !cycleReported {
					cycleReported = true
					e.report(histOf(b, id), "rebalancing-cycle", "a sweep leaves the state unchanged although some table is still asked to move players")
				}
				continue
			}
			if x := visit(s) + 1; x > h {
				h = x
			}
		}
		color[id] = 2
		height[id] = h
		return h
	}
	for id := 0; id < n; id++ {
		if !graph[id].applies {
			continue
		}
		nApplies++
		if graph[id].settled {
			nSettled++
			continue
		}
		h := visit(int32(id))
		if h > maxH {
			maxH = h
		}
		if bound := int32(graph[id].players + graph[id].tables); h > bound {
			e.report(histOf(b, int32(id)), "settling-too-slow", fmt.Sprintf("%d sweeps may be needed to settle, bound is players + tables = %d", h, bound))
		}
	}
	e.Rep.Add("sweep_start_states", nApplies)
	e.Rep.Add("sweep_start_states_already_settled", nSettled)
	e.Rep.Add("sweeps_executed", sweeps)
	e.Rep.Add("sweep_targets_outside_explored_set", unknown)
	e.Rep.Max("max_sweeps_to_settle", int64(maxH))
	if unknown > 0 {
		e.Rep.Cap(fmt.Sprintf("%d sweep results lie outside the explored state set (caps) in setting %d/%d", unknown, e.S.Max, e.S.Min))
	}
}

// ReplayViolation re-executes a recorded regulator history on a fresh regulator and environment.
func ReplayViolation(v *explore.Violation) (bool, string) {
	var s Setting
	if err := json.Unmarshal(v.Config, &s); err != nil {
		return false, err.Error()
	}
	runtime.LockOSThread()
	defer runtime.UnlockOSThread()
	var steps []Step
	for _, l := range v.History {
		st, err := ParseStep(l)
		if err != nil {
			return false, err.Error()
		}
		steps = append(steps, st)
	}
	if v.Signature == "rebalancing-cycle" || v.Signature == "settling-too-slow" {
		return replaySweeps(s, steps, v.Signature)
	}
	w := NewWorld(s)
	found := ""
	for i, st := range steps {
		var res Result
		explore.WithChooser(vrt.NewChooser(st.Choices), func() { res = w.Do(st) })
		if res.Panic != "" && v.Signature == "panic:"+st.Kind {
			return true, res.Panic
		}
		probs := append(res.Problems, w.Invariant()...)
		for _, p := range probs {
			if p.prop == v.Property && p.sig == v.Signature {
				found = fmt.Sprintf("step %d %s: %s", i, st.Label(), p.msg)
			}
		}
		if res.Panic != "" {
			break
		}
	}
	if found != "" {
		return true, found
	}
	return false, "oracle silent along the recorded history"
}

// replaySweeps explores, from the recorded state, the sweep graph under every
// order of the tables and reports whether it contains a cycle through a
// non-settled state or a chain longer than players + tables.
func replaySweeps(s Setting, steps []Step, sig string) (bool, string) {
	w0, _ := Replay(s, steps)
	bound := w0.snapshot().PlayerCount + len(w0.Tab)
	memo := map[string]int{}
	onStack := map[string]bool{}
	cycle := false
	var visit func(hist []Step, depth int) int
	visit = func(hist []Step, depth int) int {
		w, _ := Replay(s, hist)
		key := w.Key()
		if onStack[key] {
			cycle = true
			return 0
		}
		if h, ok := memo[key]; ok {
			return h
		}
		if depth > bound+2 {
			return depth
		}
		onStack[key] = true
		h := 0
		k := len(w.Tab)
		for _, perm := range permsOf(k, k <= 4) {
			w2, _ := Replay(s, hist)
			ids := w2.liveTables()
			quiet := true
			sh := append([]Step{}, hist...)
			for _, ti := range perm {
				pos := -1
				for i, x := range w2.liveTables() {
					if x == ids[ti] {
						pos = i
					}
				}
				if pos < 0 {
					continue
				}
				st := Step{Kind: "Sync", A: pos}
				res := w2.Do(st)
				sh = append(sh, st)
				if !res.Quiet {
					quiet = false
				}
			}
			if quiet && w2.Key() == key {
				continue
			}
			if w2.Key() == key {
				cycle = true
				continue
			}
			if x := visit(sh, depth+1) + 1; x > h {
				h = x
			}
		}
		onStack[key] = false
		memo[key] = h
		return h
	}
	h := visit(steps, 0)
	if sig == "rebalancing-cycle" && cycle {
		return true, "sweeping can return to a state seen before without settling"
	}
	if sig == "settling-too-slow" && h > bound {
		return true, fmt.Sprintf("%d sweeps may be needed, bound %d", h, bound)
	}
	return false, fmt.Sprintf("settles within %d sweeps under every order", h)
}
