package seats

import (
	"fmt"
	"os"

	"verif/internal/explore"
)

func sizes(tier string) (lo, hi int) {
	if tier == "thorough" {
		return 2, 6
	}
	return 2, 5
}

func runSeq(rep *explore.Report, prop, tier string) {
	lo, hi := sizes(tier)
	faithful, why := Guard()
	if faithful {
		faithful, why = BuildFaithful()
	}
	if !faithful {
		rep.Set("accelerator", "state reconstruction through the exported setters is not faithful on this tree ("+why+"): every table size is explored by genuine replays instead (capped at 1.5M states per size), the sparse large tables are skipped")
	}
	// first, alone in the process and on one worker: small tables with a second seat manager living
	// beside them (created and driven along a script after every operation of the table under test)
	before := rep.ViolationCount()
	for _, n := range []int{2, 3} {
		c := &Check{Property: prop, Rep: rep, N: n, DevBound: -1, MaxState: 6000000, Beside: true, Workers: 1}
		c.RunReplay()
	}
	rep.Set("second_table_in_process", "tables of 2 and 3 seats are explored once more with a second seat manager (4 seats, 16 scripted operations and queries) created and played after every operation of the table under test; sequential, before anything else")
	if rep.ViolationCount() > before {
		rep.Cap("the exploration beside a second table violated the property: the rest of the check was skipped")
		return
	}
	for n := lo; n <= hi; n++ {
		dev := -1
		switch {
		case n >= 5:
			dev = 1
		case n == 4:
			dev = 2
		}
		c := &Check{Property: prop, Rep: rep, N: n, DevBound: dev, MaxState: 6000000}
		if !faithful {
			c.MaxState = 1500000
		}
		if n <= 4 || !faithful {
			c.RunReplay() // genuine replays on one object: keeps pointer identity and replaced records
		} else {
			c.Run()
		}
	}
	// large tables, sparsely occupied: the full alphabet is out of reach at 9 and 10 seats, so only a
	// few seats are used (every operation on them, Next in between) - chosen to reach the highest seat
	// ids, the wrap-around from the last seat to seat 0 and long runs of empty seats
	sparse := []struct {
		n    int
		only []int
	}{{9, []int{0, 4, 8}}, {9, []int{7, 8}}, {9, []int{6, 7, 8}}, {10, []int{8, 9}}, {10, []int{1, 8, 9}}}
	if tier == "thorough" {
		for a := 0; a < 8; a++ {
			for b := a + 1; b < 8; b++ {
				sparse = append(sparse, struct {
					n    int
					only []int
				}{9, []int{a, b, 8}})
			}
		}
		sparse = append(sparse, struct {
			n    int
			only []int
		}{9, []int{0, 3, 7, 8}}, struct {
			n    int
			only []int
		}{10, []int{0, 5, 8, 9}}, struct {
			n    int
			only []int
		}{12, []int{3, 10, 11}})
	}
	if !faithful {
		sparse = nil
	}
	for _, sp := range sparse {
		c := &Check{Property: prop, Rep: rep, N: sp.n, DevBound: 0, MaxState: 6000000, Only: sp.only}
		c.Run()
	}
	rep.Set("sparse_large_tables", fmt.Sprintf("%d explorations of 9-, 10- (thorough: 12-) seat tables where only 2-4 chosen seats are ever used (every operation on them + Next)", len(sparse)))
	rep.Set("rand_and_map_order_deviation_bound", "every answer sequence up to 3 seats, <=2 non-default answers per Join(-1) at 4 seats, <=1 from 5 seats (one deviation already reaches every seat Join(-1) can pick: the chosen key moved to the front of the map order)")
	rep.Sample(map[string]any{"seats": 3, "history": []string{"Join(0)", "Seat(0)", "Join(2)", "Seat(2)", "Next", "Reserve(0)", "Join(1)", "Seat(1)", "Reserve(2)", "Next"}})
	rep.Set("replay_mode", "tables of 2-4 seats are explored by replaying every history on one fresh seat manager (no state reconstruction); the key adds whether Dealer()/SmallBlind()/BigBlind() still are the live seat records")
	rep.Assumption("from 5 seats a state is rebuilt through the public API (live seats from GetSeat, SetDealer/SetSmallBlind/SetBigBlind); guarded by a struct-shape check; every reported violation is replayed on one uninterrupted object")
}

func RunC08(rep *explore.Report, tier string) {
	lo, hi := sizes(tier)
	rep.Set("rule", fmt.Sprintf("every reachable seat map of tables with %d..%d seats under Join(k) k in -2..N, Seat/Reserve/Leave(k) k in -1..N, Next (every rand and map-order answer for Join(-1)); after every successful Next: position oracle refSeat and the nested late-joiner scenario for every empty seat between dealer and big blind; distinct_nontrivial = successful Next transitions checked", lo, hi))
	runSeq(rep, "C08", tier)
	rep.Set("distinct_nontrivial", rep.Get("next_moves_checked"))
	rep.Set("evaluations", rep.Get("next_moves_checked")+rep.Get("late_joiner_scenarios"))
}

func RunC17(rep *explore.Report, tier string) {
	lo, hi := sizes(tier)
	rep.Set("rule", fmt.Sprintf("every reachable seat map of tables with %d..%d seats; every Next transition: with a dealer and >=2 playable seats the button must land on the first playable seat clockwise, with <2 occupied non-reserved seats Next must return the insufficient-players error; distinct_nontrivial = Next transitions in the 'button must move' clause", lo, hi))
	runSeq(rep, "C17", tier)
	rep.Set("distinct_nontrivial", rep.Get("next_moves_checked"))
	rep.Set("evaluations", rep.Get("next_moves_checked")+rep.Get("next_refusals_checked"))
}

func RunC18(rep *explore.Report, tier string) {
	lo, hi := sizes(tier)
	rep.Set("rule", fmt.Sprintf("sequential: every reachable seat map of tables with %d..%d seats x every operation incl. out-of-range ids and every rand/map-order answer of Join(-1), occupancy model + no panic; concurrent: every schedule of each harness with at most the stated number of preemptions (scheduling point before every statement and lock operation of seat_manager.go); distinct_nontrivial = distinct end-of-schedule outcomes over all harnesses", lo, hi))
	// the schedules first: a seat manager that shares anything between tables or threads makes the
	// parallel sequential search below nondeterministic, and that must not mask the reproducible schedule
	RunConcurrent(rep, tier, "")
	racePass(rep)
	if rep.ViolationCount() > 0 {
		rep.Cap("the concurrent harnesses violated the property: the sequential exploration was skipped")
		return
	}
	runSeq(rep, "C18", tier)
	rep.Set("distinct_nontrivial", rep.Get("concurrent_distinct_outcomes"))
	rep.Set("evaluations", rep.Get("executions")+rep.Get("schedules"))
	rep.Assumption("scheduling points at statement granularity and at lock operations; memory-model effects below that are only covered by the separate free-running -race pass of the thorough tier")
}

// racePass folds the result of the separate free-running -race run (started by scripts/run.sh in the thorough tier) into the report.
func racePass(rep *explore.Report) {
	code := os.Getenv("VERIF_RACE_EXIT")
	if code == "" {
		rep.Set("race_pass", "not run in this tier")
		return
	}
	log, _ := os.ReadFile(os.Getenv("VERIF_RACE_LOG"))
	switch code {
	case "0":
		rep.Set("race_pass", "free-running -race pass on the un-instrumented seat manager: no race reported (silence proves nothing and is not claimed)")
	case "buildfail":
		rep.Set("race_pass", "race build failed: "+firstLine(string(log)))
	default:
		msg := string(log)
		if len(msg) > 1500 {
			msg = msg[:1500]
		}
		rep.Violation(&explore.Violation{Property: "C18", Engine: "none", Signature: "data-race", Message: "the Go race detector reports a data race (or a double seat) in free-running concurrent Join/Leave calls", Observed: msg, Config: []byte(`"cmd/racepass"`), History: []string{"racepass"}})
	}
}
