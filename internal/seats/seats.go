// Package seats explores the real seat manager: every operation sequence on
// small tables (C08, C17, C18 sequential part) and every thread schedule of
// small concurrent harnesses (C18 concurrent part).
package seats

import (
	"encoding/json"
	"fmt"
	"reflect"
	"sort"
	"strconv"
	"strings"

	sm "github.com/weedbox/pokerface/seat_manager"
	"github.com/weedbox/pokerface/verifshim/vrt"

	"verif/internal/explore"
)

// St is a full-fidelity snapshot of a seat manager plus monitor bits.
type St struct {
	N      int
	Occ    []bool // a player sits here
	Act    []bool
	Res    []bool
	D      int // dealer / small blind / big blind seat, -1 = none
	SB, BB int
	Held   []bool // monitor: joined and not yet sat in (must stay out of play)
}

func (s *St) clone() *St {
	c := *s
	c.Occ = append([]bool{}, s.Occ...)
	c.Act = append([]bool{}, s.Act...)
	c.Res = append([]bool{}, s.Res...)
	c.Held = append([]bool{}, s.Held...)
	return &c
}

func (s *St) key() explore.Key {
	var b strings.Builder
	for i := 0; i < s.N; i++ {
		x := 0
		if s.Occ[i] {
			x |= 1
		}
		if s.Act[i] {
			x |= 2
		}
		if s.Res[i] {
			x |= 4
		}
		if s.Held[i] {
			x |= 8
		}
		b.WriteByte(byte('a' + x))
	}
	fmt.Fprintf(&b, "|%d,%d,%d", s.D, s.SB, s.BB)
	return explore.HashKey([]byte(b.String()))
}

func (s *St) String() string {
	var b strings.Builder
	for i := 0; i < s.N; i++ {
		c := "."
		if s.Occ[i] {
			c = "P"
		}
		if !s.Act[i] {
			c += "i"
		}
		if s.Res[i] {
			c += "r"
		}
		b.WriteString(c + " ")
	}
	fmt.Fprintf(&b, "D=%d SB=%d BB=%d", s.D, s.SB, s.BB)
	return b.String()
}

func (s *St) playable(i int) bool { return s.Occ[i] && s.Act[i] && !s.Res[i] }

func (s *St) playableCount() int {
	c := 0
	for i := 0; i < s.N; i++ {
		if s.playable(i) {
			c++
		}
	}
	return c
}

func (s *St) occupiedCount() int {
	c := 0
	for i := 0; i < s.N; i++ {
		if s.Occ[i] {
			c++
		}
	}
	return c
}

// Guard: the SeatManager struct must hold exactly the fields that Build
// restores through the public API.
func Guard() (bool, string) {
	t := reflect.TypeOf(sm.SeatManager{})
	want := []string{"max", "seats", "mu", "dealer", "sb", "bb"}
	if t.NumField() != len(want) {
		return false, fmt.Sprintf("SeatManager has %d fields, expected %v", t.NumField(), want)
	}
	for i, w := range want {
		if t.Field(i).Name != w {
			return false, fmt.Sprintf("SeatManager field %d is %s, expected %s", i, t.Field(i).Name, w)
		}
	}
	st := reflect.TypeOf(sm.Seat{})
	wantS := []string{"ID", "IsActive", "IsReserved", "Player"}
	if st.NumField() != len(wantS) {
		return false, fmt.Sprintf("Seat has %d fields, expected %v", st.NumField(), wantS)
	}
	return true, ""
}

// Build constructs a fresh real seat manager in state s, through the public
// API only (GetSeat returns the live seat; SetDealer/SetSmallBlind/SetBigBlind).
func Build(s *St) *sm.SeatManager {
	m := sm.NewSeatManager(s.N)
	for i := 0; i < s.N; i++ {
		seat := m.GetSeat(i)
		seat.IsActive = s.Act[i]
		seat.IsReserved = s.Res[i]
		if s.Occ[i] {
			seat.Player = "p"
		} else {
			seat.Player = nil
		}
	}
	if s.D >= 0 {
		m.SetDealer(s.D)
	}
	if s.SB >= 0 {
		m.SetSmallBlind(s.SB)
	}
	if s.BB >= 0 {
		m.SetBigBlind(s.BB)
	}
	return m
}

// BuildFaithful runs genuine histories that put the button and the blinds on every seat (seat 0
// included) and checks that Build reproduces each state they pass through: same snapshot, same
// pointer identities. Build goes through exported setters (SetDealer, ...) that are not among the
// operations of the properties; if they stop being faithful the accelerator must not be used.
func BuildFaithful() (bool, string) {
	for _, n := range []int{2, 3, 4} {
		m := sm.NewSeatManager(n)
		var hist []string
		do := func(op Op) {
			Apply(m, op)
			hist = append(hist, op.Label())
		}
		for i := 0; i < n; i++ {
			do(Op{"Join", i})
			do(Op{"Seat", i})
		}
		for k := 0; k < 2*n+1; k++ {
			do(Op{Kind: "Next"})
			want := Snap(m, n)
			got := Build(want)
			if a, b := want.String(), Snap(got, n).String(); a != b {
				return false, fmt.Sprintf("after %v the seat manager is %s, rebuilt through the exported setters it is %s", hist, a, b)
			}
			if a, b := identity(m), identity(got); a != b {
				return false, fmt.Sprintf("after %v the position records are %s, rebuilt they are %s", hist, a, b)
			}
			if k == n {
				do(Op{"Reserve", 0})
			}
		}
	}
	return true, ""
}

func seatID(x *sm.Seat) int {
	if x == nil {
		return -1
	}
	return x.ID
}

// Snap reads the full state back (monitor bits are the caller's business).
func Snap(m *sm.SeatManager, n int) *St {
	s := &St{N: n, Occ: make([]bool, n), Act: make([]bool, n), Res: make([]bool, n), Held: make([]bool, n)}
	for i := 0; i < n; i++ {
		seat := m.GetSeat(i)
		if seat == nil {
			continue
		}
		s.Occ[i] = seat.Player != nil
		s.Act[i] = seat.IsActive
		s.Res[i] = seat.IsReserved
	}
	s.D, s.SB, s.BB = seatID(m.Dealer()), seatID(m.SmallBlind()), seatID(m.BigBlind())
	return s
}

func Initial(n int) *St {
	return Snap(sm.NewSeatManager(n), n)
}

// Op is one seat-manager call.
type Op struct {
	Kind string // Join Seat Reserve Leave Next
	K    int
}

func (o Op) Label() string {
	if o.Kind == "Next" {
		return "Next"
	}
	return fmt.Sprintf("%s(%d)", o.Kind, o.K)
}

func ParseOp(l string) (Op, error) {
	if l == "Next" {
		return Op{Kind: "Next"}, nil
	}
	i := strings.Index(l, "(")
	if i < 0 {
		return Op{}, fmt.Errorf("bad op %q", l)
	}
	k, err := strconv.Atoi(strings.TrimSuffix(l[i+1:], ")"))
	if err != nil {
		return Op{}, err
	}
	return Op{Kind: l[:i], K: k}, nil
}

func Alphabet(n int) []Op {
	var ops []Op
	for k := -2; k <= n; k++ {
		ops = append(ops, Op{"Join", k})
	}
	for _, kind := range []string{"Seat", "Reserve", "Leave"} {
		for k := -1; k <= n; k++ {
			ops = append(ops, Op{kind, k})
		}
	}
	ops = append(ops, Op{Kind: "Next"})
	return ops
}

// Outcome of one call.
type Outcome struct {
	Err   error
	Seat  int // Join: seat returned
	Panic string
}

func Apply(m *sm.SeatManager, o Op) (out Outcome) {
	defer func() {
		if r := recover(); r != nil {
			out.Panic = fmt.Sprintf("%v", r) // no stack: a defect that panics in every state would make the search crawl
		}
	}()
	switch o.Kind {
	case "Join":
		id, err := m.Join(o.K, "p")
		return Outcome{Err: err, Seat: id}
	case "Seat":
		return Outcome{Err: m.Seat(o.K)}
	case "Reserve":
		return Outcome{Err: m.Reserve(o.K)}
	case "Leave":
		return Outcome{Err: m.Leave(o.K)}
	case "Next":
		return Outcome{Err: m.Next()}
	}
	panic("bad op")
}

// between reports whether k lies strictly between a and b going clockwise from a.
func between(a, k, b, n int) bool {
	if a == b {
		return k != a // full circle
	}
	for i := (a + 1) % n; i != b; i = (i + 1) % n {
		if i == k {
			return true
		}
	}
	return false
}

// firstPlayableAfter returns the first playable seat strictly clockwise of a (may wrap to a itself last), or -1.
func (s *St) firstPlayableAfter(a int) int {
	for d := 1; d <= s.N; d++ {
		i := (a + d) % s.N
		if s.playable(i) {
			return i
		}
	}
	return -1
}

func sortedInts(a []int) []int {
	b := append([]int{}, a...)
	sort.Ints(b)
	return b
}

type cfgJSON struct {
	N      int  `json:"seats"`
	Beside bool `json:"second_table_in_process,omitempty"` // a second seat manager is created and driven along otherScript after NewSeatManager and after every operation
}

func cfgOf(n int) json.RawMessage {
	b, _ := json.Marshal(cfgJSON{N: n})
	return b
}

func (c *Check) cfg() json.RawMessage {
	b, _ := json.Marshal(cfgJSON{N: c.N, Beside: c.Beside})
	return b
}

// otherScript is what the second table of a "beside" exploration does (4 seats; refusals are its
// own business): people sit down, the button moves, somebody sits out, leaves, comes back.
var otherScript = []Op{{"Join", 0}, {"Seat", 0}, {"Join", 2}, {"Seat", 2}, {"Join", 3}, {"Next", 0}, {"Seat", 3}, {"Next", 0},
	{"Reserve", 0}, {"Next", 0}, {"Leave", 2}, {"Join", 1}, {"Seat", 1}, {"Next", 0}, {"Join", -1}, {"Next", 0}}

// otherTable creates the second table and plays its script; the calling goroutine is locked to its thread.
func otherTable() {
	m := sm.NewSeatManager(4)
	for _, op := range otherScript {
		exec(m, op, vrt.NewChooser(nil))
		func() {
			defer func() { recover() }() // the second table is environment: what its queries do is not judged here
			m.GetSeats()
			m.GetPlayableSeats()
		}()
	}
}

var _ = vrt.Choose
