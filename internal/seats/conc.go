package seats

import (
	"encoding/json"
	"fmt"
	"os"
	osexec "os/exec"
	"runtime"
	"sort"
	"strings"
	"sync"

	sm "github.com/weedbox/pokerface/seat_manager"
	"github.com/weedbox/pokerface/verifshim/vrt"

	"verif/internal/explore"
)

// Harness is a small closed concurrent program over one seat manager.
type Harness struct {
	Name    string   `json:"name"`
	N       int      `json:"seats"`
	Prefix  []string `json:"prefix"`                              // sequential operations that build the initial map
	Threads [][]Op   `json:"threads"`                             // operations of each thread
	Other   [][]Op   `json:"threads_on_a_second_table,omitempty"` // threads working on a second, independent seat manager of the same size
}

func Harnesses(tier string) []Harness {
	j := func(k int) Op { return Op{"Join", k} }
	hs := []Harness{
		{Name: "2-joins-same-seat", N: 3, Threads: [][]Op{{j(0)}, {j(0)}}},
		{Name: "3-joins-same-seat", N: 3, Threads: [][]Op{{j(0)}, {j(0)}, {j(0)}}},
		{Name: "2-joins-any-2-free", N: 2, Threads: [][]Op{{j(-1)}, {j(-1)}}},
		{Name: "2-joins-any-1-free", N: 2, Prefix: []string{"Join(0)"}, Threads: [][]Op{{j(-1)}, {j(-1)}}},
		{Name: "3-joins-any-2-free", N: 3, Prefix: []string{"Join(0)"}, Threads: [][]Op{{j(-1)}, {j(-1)}, {j(-1)}}},
		{Name: "leave-and-2-joins", N: 3, Prefix: []string{"Join(0)", "Seat(0)"}, Threads: [][]Op{{{"Leave", 0}}, {j(0)}, {j(0)}}},
		{Name: "crossed-joins", N: 3, Threads: [][]Op{{j(0), j(1)}, {j(1), j(0)}}},
		{Name: "after-next-1-inactive-free", N: 3, Prefix: []string{"Join(0)", "Seat(0)", "Join(2)", "Seat(2)", "Next"}, Threads: [][]Op{{j(-1)}, {j(-1)}}},
		{Name: "join-any-vs-specific", N: 3, Prefix: []string{"Join(2)"}, Threads: [][]Op{{j(-1)}, {j(0)}, {j(1)}}},
		// two tables of one process, each with its own lock: nothing may couple them
		{Name: "two-tables-join-any", N: 2, Threads: [][]Op{{j(-1), j(-1)}}, Other: [][]Op{{j(-1), j(-1)}}},
		{Name: "two-tables-2-joins-each", N: 2, Prefix: []string{"Join(0)"}, Threads: [][]Op{{j(-1)}, {j(1)}}, Other: [][]Op{{j(-1)}}},
	}
	if tier == "thorough" {
		hs = append(hs,
			Harness{Name: "4-joins-same-seat", N: 3, Threads: [][]Op{{j(0)}, {j(0)}, {j(0)}, {j(0)}}},
			Harness{Name: "4-joins-any-3-free", N: 4, Prefix: []string{"Join(1)"}, Threads: [][]Op{{j(-1)}, {j(-1)}, {j(-1)}, {j(-1)}}},
			Harness{Name: "joins-during-next", N: 3, Prefix: []string{"Join(0)", "Seat(0)", "Join(1)", "Seat(1)"}, Threads: [][]Op{{{Kind: "Next"}}, {j(2)}, {j(-1)}}},
			Harness{Name: "two-tables-2-joins-any-each", N: 3, Prefix: []string{"Join(0)"}, Threads: [][]Op{{j(-1)}, {j(-1)}}, Other: [][]Op{{j(-1)}, {j(-1)}}},
		)
	}
	return hs
}

type tres struct {
	Seat int
	Err  string
	OK   bool
}

// runOnce executes the harness under one schedule and returns an outcome string and a violation (sig,msg) if any.
func (h *Harness) runOnce(ch *vrt.Chooser) (outcome, sig, msg string) {
	build := func() *sm.SeatManager {
		m := sm.NewSeatManager(h.N)
		for _, l := range h.Prefix {
			op, _, err := parseStep(l)
			if err != nil {
				panic(err)
			}
			if o := Apply(m, op); o.Panic != "" {
				panic("harness prefix panics: " + o.Panic)
			}
		}
		return m
	}
	m := build()
	initOcc := m.GetPlayerCount()
	all := append(append([][]Op{}, h.Threads...), h.Other...)
	var m2 *sm.SeatManager
	if len(h.Other) > 0 {
		m2 = build()
	}
	results := make([][]tres, len(all))
	var fns []func()
	for ti, ops := range all {
		ti, ops := ti, ops
		m := m
		if ti >= len(h.Threads) {
			m = m2
		}
		results[ti] = make([]tres, len(ops))
		fns = append(fns, func() {
			for oi, op := range ops {
				switch op.Kind {
				case "Join":
					id, err := m.Join(op.K, fmt.Sprintf("t%d.%d", ti, oi))
					results[ti][oi] = tres{Seat: id, OK: err == nil}
					if err != nil {
						results[ti][oi].Err = err.Error()
					}
				case "Leave":
					err := m.Leave(op.K)
					results[ti][oi] = tres{Seat: op.K, OK: err == nil}
				case "Next":
					err := m.Next()
					results[ti][oi] = tres{OK: err == nil}
				case "Seat":
					results[ti][oi] = tres{OK: m.Seat(op.K) == nil}
				case "Reserve":
					results[ti][oi] = tres{OK: m.Reserve(op.K) == nil}
				}
			}
		})
	}
	res := vrt.Run(ch, 20000, fns...)
	var ob strings.Builder
	for ti := range results {
		for oi, r := range results[ti] {
			fmt.Fprintf(&ob, "t%d.%d:%v/%d ", ti, oi, r.OK, r.Seat)
		}
	}
	outcome = ob.String()
	if res.Deadlock {
		return outcome, "deadlock", "no thread can run but not all have finished"
	}
	if res.Livelock {
		return outcome, "livelock", "step horizon exceeded"
	}
	for ti, p := range res.Panics {
		if p != "" {
			return outcome, "panic", fmt.Sprintf("thread %d panics: %s", ti, firstLine(p))
		}
	}
	if sig, msg := h.judge(m, 0, h.Threads, results[:len(h.Threads)], initOcc); sig != "" {
		return outcome, sig, msg
	}
	if m2 != nil {
		if sig, msg := h.judge(m2, len(h.Threads), h.Other, results[len(h.Threads):], initOcc); sig != "" {
			return outcome, sig, "second table: " + msg
		}
	}
	return outcome, "", ""
}

// judge is the end-of-schedule oracle for one seat manager and the threads that worked on it
// (tiBase: index of its first thread, for the player tokens).
func (h *Harness) judge(m *sm.SeatManager, tiBase int, threads [][]Op, results [][]tres, initOcc int) (sig, msg string) {
	bySeat := map[int]string{}
	joins, leaves := 0, 0
	for ti := range results {
		for oi, r := range results[ti] {
			op := threads[ti][oi]
			if !r.OK {
				continue
			}
			switch op.Kind {
			case "Join":
				joins++
				tok := fmt.Sprintf("t%d.%d", tiBase+ti, oi)
				if r.Seat < 0 || r.Seat >= h.N {
					return "join-bad-seat", fmt.Sprintf("%s was given seat %d", tok, r.Seat)
				}
				if other, dup := bySeat[r.Seat]; dup {
					return "two-players-one-seat", fmt.Sprintf("joins %s and %s were both given seat %d", other, tok, r.Seat)
				}
				bySeat[r.Seat] = tok
			case "Leave":
				leaves++
			}
		}
	}
	for seat, tok := range bySeat {
		s := m.GetSeat(seat)
		if s == nil || s.Player != tok {
			var got any
			if s != nil {
				got = s.Player
			}
			return "joined-player-not-on-seat", fmt.Sprintf("join %s succeeded on seat %d but the seat holds %v", tok, seat, got)
		}
	}
	// join on any seat may report "none available" only when that is true: without a Leave in the
	// harness seats only fill up, so a seat still empty and not reserved at the end was free all along
	hasLeave := false
	for _, ops := range threads {
		for _, op := range ops {
			if op.Kind == "Leave" {
				hasLeave = true
			}
		}
	}
	if !hasLeave {
		free := -1
		for i := 0; i < h.N; i++ {
			if s := m.GetSeat(i); s != nil && s.Player == nil && !s.IsReserved {
				free = i
			}
		}
		if free >= 0 {
			for ti := range results {
				for oi, r := range results[ti] {
					if op := threads[ti][oi]; op.Kind == "Join" && op.K == -1 && !r.OK {
						return "join-any-refused-with-free-seat", fmt.Sprintf("join t%d.%d on any seat was refused (%s) although seat %d is empty and not reserved", tiBase+ti, oi, r.Err, free)
					}
				}
			}
		}
	}
	if got := m.GetPlayerCount(); got != initOcc+joins-leaves {
		return "player-count", fmt.Sprintf("%d seated players, expected %d + %d joins - %d leaves", got, initOcc, joins, leaves)
	}
	return "", ""
}

// ChildResult is what a per-harness child process reports on stdout.
type ChildResult struct {
	Harness   string             `json:"harness"`
	Schedules int                `json:"schedules"`
	Outcomes  []string           `json:"outcomes"`
	Broken    string             `json:"broken,omitempty"`
	Violation *explore.Violation `json:"violation,omitempty"`
}

// RunHarnessChild explores one harness in this process (the cooperative scheduler is
// process-global, so harnesses are spread over child processes) and prints a ChildResult.
func RunHarnessChild(name string, bound int) {
	rep := explore.NewReport("C18", "child")
	runHarnesses(rep, "thorough", name, bound)
	res := ChildResult{Harness: name}
	if s, ok := rep.Cov["schedules"].(int64); ok {
		res.Schedules = int(s)
	}
	for _, smp := range rep.Samples {
		if m, ok := smp.(map[string]any); ok {
			if outs, ok := m["distinct_outcomes"].([]string); ok {
				res.Outcomes = outs
			}
		}
	}
	res.Broken = rep.Broken
	res.Violation = rep.FirstViolation()
	b, _ := json.Marshal(res)
	fmt.Println(string(b))
}

// RunConcurrent explores every schedule of every harness within the preemption bound. In the
// thorough tier every harness runs in its own child process, all in parallel.
func RunConcurrent(rep *explore.Report, tier string, only string) {
	bound := 2
	if tier == "thorough" {
		bound = 3
	}
	exe, err := os.Executable()
	if tier != "thorough" || err != nil || os.Getenv("VERIF_NO_CHILDREN") != "" {
		runHarnesses(rep, tier, only, bound)
		return
	}
	rep.Set("preemption_bound", int64(bound))
	hs := Harnesses(tier)
	results := make([]ChildResult, len(hs))
	errs := make([]string, len(hs))
	var wg sync.WaitGroup
	sem := make(chan struct{}, runtime.NumCPU())
	for i, h := range hs {
		wg.Add(1)
		go func(i int, h Harness) {
			defer wg.Done()
			sem <- struct{}{}
			defer func() { <-sem }()
			out, err := osexec.Command(exe, "conc-child", h.Name, fmt.Sprint(bound)).Output()
			if err != nil {
				errs[i] = fmt.Sprintf("child for harness %s failed: %v", h.Name, err)
				return
			}
			lines := strings.Split(strings.TrimSpace(string(out)), "\n")
			if err := json.Unmarshal([]byte(lines[len(lines)-1]), &results[i]); err != nil {
				errs[i] = fmt.Sprintf("child for harness %s: bad output: %v", h.Name, err)
			}
		}(i, h)
	}
	wg.Wait()
	for i, h := range hs {
		if errs[i] != "" {
			rep.Broken = errs[i]
			continue
		}
		r := results[i]
		if r.Broken != "" {
			rep.Broken = r.Broken
		}
		if r.Violation != nil {
			v := r.Violation
			v.Confirm = func() (bool, string) { return ReplayConcurrent(v) }
			rep.Violation(v)
		}
		rep.Add("schedules", int64(r.Schedules))
		rep.Add("transitions", int64(r.Schedules))
		rep.Add("states", int64(len(r.Outcomes)))
		rep.Add("traces_validated_against_impl", int64(r.Schedules))
		rep.Add("concurrent_distinct_outcomes", int64(len(r.Outcomes)))
		rep.Sample(map[string]any{"harness": h.Name, "threads": h.Threads, "prefix": h.Prefix, "schedules_within_bound": r.Schedules, "distinct_outcomes": r.Outcomes})
	}
}

func runHarnesses(rep *explore.Report, tier string, only string, bound int) {
	runtime.LockOSThread()
	defer runtime.UnlockOSThread()
	rep.Set("preemption_bound", int64(bound))
	for _, h := range Harnesses(tier) {
		if only != "" && h.Name != only {
			continue
		}
		h := h
		outcomes := map[string]int{}
		hb := bound
		if len(h.Threads)+len(h.Other) >= 4 && hb > 2 {
			hb = 2 // four threads with statement-level points: 3 preemptions would take hours; 2 are completed
			rep.Set("preemption_bound_four_thread_harnesses", int64(hb))
		}
		execs, _ := explore.Deviations(hb, 0, func(ch *vrt.Chooser) {
			out, sig, msg := h.runOnce(ch)
			outcomes[out]++
			if sig != "" {
				cfg, _ := json.Marshal(h)
				v := &explore.Violation{Property: "C18", Engine: "seats-conc", Signature: "concurrent:" + sig, Message: fmt.Sprintf("harness %s: %s", h.Name, msg),
					Config: cfg, Choices: ch.Choices(), History: []string{h.Name}, Observed: out}
				v.Confirm = func() (bool, string) { return ReplayConcurrent(v) }
				rep.Violation(v)
			}
		})
		// replay determinism: the default schedule twice must give identical observations
		o1, _, _ := h.runOnce(vrt.NewChooser(nil))
		o2, _, _ := h.runOnce(vrt.NewChooser(nil))
		if o1 != o2 {
			rep.Broken = "schedule replay is not deterministic for harness " + h.Name
		}
		var outs []string
		for o := range outcomes {
			outs = append(outs, o)
		}
		sort.Strings(outs)
		rep.Add("schedules", int64(execs))
		rep.Add("transitions", int64(execs))
		rep.Add("states", int64(len(outcomes)))
		rep.Add("traces_validated_against_impl", int64(execs))
		rep.Add("concurrent_distinct_outcomes", int64(len(outcomes)))
		rep.Sample(map[string]any{"harness": h.Name, "threads": h.Threads, "prefix": h.Prefix, "schedules_within_bound": execs, "distinct_outcomes": outs})
	}
}

// ReplayConcurrent re-runs one recorded schedule.
func ReplayConcurrent(v *explore.Violation) (bool, string) {
	var h Harness
	if err := json.Unmarshal(v.Config, &h); err != nil {
		return false, err.Error()
	}
	runtime.LockOSThread()
	defer runtime.UnlockOSThread()
	ch := vrt.NewChooser(v.Choices)
	_, sig, msg := h.runOnce(ch)
	if ch.Err != "" {
		return false, "schedule does not fit this build: " + ch.Err
	}
	if "concurrent:"+sig == v.Signature {
		return true, msg
	}
	return false, "schedule runs clean (" + sig + ")"
}

func jsonUnmarshal(b []byte, v any) error { return json.Unmarshal(b, v) }
