package seats

import (
	"encoding/json"
	"fmt"
	"os"
	osexec "os/exec"
	"runtime"
	"sort"
	"strings"
	"sync"

	sm "github.com/weedbox/pokerface/seat_manager"
	"github.com/weedbox/pokerface/verifshim/vrt"

	"verif/internal/explore"
)

// Harness is a small closed concurrent program over one seat manager.
type Harness struct {
	Name    string   `json:"name"`
	N       int      `json:"seats"`
	Prefix  []string `json:"prefix"`  // sequential operations that build the initial map
	Threads [][]Op   `json:"threads"` // operations of each thread
}

func Harnesses(tier string) []Harness {
	j := func(k int) Op { return Op{"Join", k} }
	hs := []Harness{
		{"2-joins-same-seat", 3, nil, [][]Op{{j(0)}, {j(0)}}},
		{"3-joins-same-seat", 3, nil, [][]Op{{j(0)}, {j(0)}, {j(0)}}},
		{"2-joins-any-2-free", 2, nil, [][]Op{{j(-1)}, {j(-1)}}},
		{"2-joins-any-1-free", 2, []string{"Join(0)"}, [][]Op{{j(-1)}, {j(-1)}}},
		{"3-joins-any-2-free", 3, []string{"Join(0)"}, [][]Op{{j(-1)}, {j(-1)}, {j(-1)}}},
		{"leave-and-2-joins", 3, []string{"Join(0)", "Seat(0)"}, [][]Op{{{"Leave", 0}}, {j(0)}, {j(0)}}},
		{"crossed-joins", 3, nil, [][]Op{{j(0), j(1)}, {j(1), j(0)}}},
		{"after-next-1-inactive-free", 3, []string{"Join(0)", "Seat(0)", "Join(2)", "Seat(2)", "Next"}, [][]Op{{j(-1)}, {j(-1)}}},
		{"join-any-vs-specific", 3, []string{"Join(2)"}, [][]Op{{j(-1)}, {j(0)}, {j(1)}}},
	}
	if tier == "thorough" {
		hs = append(hs,
			Harness{"4-joins-same-seat", 3, nil, [][]Op{{j(0)}, {j(0)}, {j(0)}, {j(0)}}},
			Harness{"4-joins-any-3-free", 4, []string{"Join(1)"}, [][]Op{{j(-1)}, {j(-1)}, {j(-1)}, {j(-1)}}},
			Harness{"joins-during-next", 3, []string{"Join(0)", "Seat(0)", "Join(1)", "Seat(1)"}, [][]Op{{{Kind: "Next"}}, {j(2)}, {j(-1)}}},
		)
	}
	return hs
}

type tres struct {
	Seat int
	Err  string
	OK   bool
}

// runOnce executes the harness under one schedule and returns an outcome string and a violation (sig,msg) if any.
func (h *Harness) runOnce(ch *vrt.Chooser) (outcome, sig, msg string) {
	m := sm.NewSeatManager(h.N)
	for _, l := range h.Prefix {
		op, _, err := parseStep(l)
		if err != nil {
			panic(err)
		}
		if o := Apply(m, op); o.Panic != "" {
			panic("harness prefix panics: " + o.Panic)
		}
	}
	initOcc := m.GetPlayerCount()
	results := make([][]tres, len(h.Threads))
	var fns []func()
	for ti, ops := range h.Threads {
		ti, ops := ti, ops
		results[ti] = make([]tres, len(ops))
		fns = append(fns, func() {
			for oi, op := range ops {
				switch op.Kind {
				case "Join":
					id, err := m.Join(op.K, fmt.Sprintf("t%d.%d", ti, oi))
					results[ti][oi] = tres{Seat: id, OK: err == nil}
					if err != nil {
						results[ti][oi].Err = err.Error()
					}
				case "Leave":
					err := m.Leave(op.K)
					results[ti][oi] = tres{Seat: op.K, OK: err == nil}
				case "Next":
					err := m.Next()
					results[ti][oi] = tres{OK: err == nil}
				case "Seat":
					results[ti][oi] = tres{OK: m.Seat(op.K) == nil}
				case "Reserve":
					results[ti][oi] = tres{OK: m.Reserve(op.K) == nil}
				}
			}
		})
	}
	res := vrt.Run(ch, 20000, fns...)
	var ob strings.Builder
	for ti := range results {
		for oi, r := range results[ti] {
			fmt.Fprintf(&ob, "t%d.%d:%v/%d ", ti, oi, r.OK, r.Seat)
		}
	}
	outcome = ob.String()
	if res.Deadlock {
		return outcome, "deadlock", "no thread can run but not all have finished"
	}
	if res.Livelock {
		return outcome, "livelock", "step horizon exceeded"
	}
	for ti, p := range res.Panics {
		if p != "" {
			return outcome, "panic", fmt.Sprintf("thread %d panics: %s", ti, firstLine(p))
		}
	}
	bySeat := map[int]string{}
	joins, leaves := 0, 0
	for ti := range results {
		for oi, r := range results[ti] {
			op := h.Threads[ti][oi]
			if !r.OK {
				continue
			}
			switch op.Kind {
			case "Join":
				joins++
				tok := fmt.Sprintf("t%d.%d", ti, oi)
				if r.Seat < 0 || r.Seat >= h.N {
					return outcome, "join-bad-seat", fmt.Sprintf("%s was given seat %d", tok, r.Seat)
				}
				if other, dup := bySeat[r.Seat]; dup {
					return outcome, "two-players-one-seat", fmt.Sprintf("joins %s and %s were both given seat %d", other, tok, r.Seat)
				}
				bySeat[r.Seat] = tok
			case "Leave":
				leaves++
			}
		}
	}
	for seat, tok := range bySeat {
		s := m.GetSeat(seat)
		if s == nil || s.Player != tok {
			var got any
			if s != nil {
				got = s.Player
			}
			return outcome, "joined-player-not-on-seat", fmt.Sprintf("join %s succeeded on seat %d but the seat holds %v", tok, seat, got)
		}
	}
	// join on any seat may report "none available" only when that is true: without a Leave in the
	// harness seats only fill up, so a seat still empty and not reserved at the end was free all along
	hasLeave := false
	for _, ops := range h.Threads {
		for _, op := range ops {
			if op.Kind == "Leave" {
				hasLeave = true
			}
		}
	}
	if !hasLeave {
		free := -1
		for i := 0; i < h.N; i++ {
			if s := m.GetSeat(i); s != nil && s.Player == nil && !s.IsReserved {
				free = i
			}
		}
		if free >= 0 {
			for ti := range results {
				for oi, r := range results[ti] {
					if op := h.Threads[ti][oi]; op.Kind == "Join" && op.K == -1 && !r.OK {
						return outcome, "join-any-refused-with-free-seat", fmt.Sprintf("join t%d.%d on any seat was refused (%s) although seat %d is empty and not reserved", ti, oi, r.Err, free)
					}
				}
			}
		}
	}
	if got := m.GetPlayerCount(); got != initOcc+joins-leaves {
		return outcome, "player-count", fmt.Sprintf("%d seated players, expected %d + %d joins - %d leaves", got, initOcc, joins, leaves)
	}
	return outcome, "", ""
}

// ChildResult is what a per-harness child process reports on stdout.
type ChildResult struct {
	Harness   string             `json:"harness"`
	Schedules int                `json:"schedules"`
	Outcomes  []string           `json:"outcomes"`
	Broken    string             `json:"broken,omitempty"`
	Violation *explore.Violation `json:"violation,omitempty"`
}

// RunHarnessChild explores one harness in this process (the cooperative scheduler is
// process-global, so harnesses are spread over child processes) and prints a ChildResult.
func RunHarnessChild(name string, bound int) {
	rep := explore.NewReport("C18", "child")
	runHarnesses(rep, "thorough", name, bound)
	res := ChildResult{Harness: name}
	if s, ok := rep.Cov["schedules"].(int64); ok {
		res.Schedules = int(s)
	}
	for _, smp := range rep.Samples {
		if m, ok := smp.(map[string]any); ok {
			if outs, ok := m["distinct_outcomes"].([]string); ok {
				res.Outcomes = outs
			}
		}
	}
	res.Broken = rep.Broken
	res.Violation = rep.FirstViolation()
	b, _ := json.Marshal(res)
	fmt.Println(string(b))
}

// RunConcurrent explores every schedule of every harness within the preemption bound. In the
// thorough tier every harness runs in its own child process, all in parallel.
func RunConcurrent(rep *explore.Report, tier string, only string) {
	bound := 2
	if tier == "thorough" {
		bound = 3
	}
	exe, err := os.Executable()
	if tier != "thorough" || err != nil || os.Getenv("VERIF_NO_CHILDREN") != "" {
		runHarnesses(rep, tier, only, bound)
		return
	}
	rep.Set("preemption_bound", int64(bound))
	hs := Harnesses(tier)
	results := make([]ChildResult, len(hs))
	errs := make([]string, len(hs))
	var wg sync.WaitGroup
	sem := make(chan struct{}, runtime.NumCPU())
	for i, h := range hs {
		wg.Add(1)
		go func(i int, h Harness) {
			defer wg.Done()
			sem <- struct{}{}
			defer func() { <-sem }()
			out, err := osexec.Command(exe, "conc-child", h.Name, fmt.Sprint(bound)).Output()
			if err != nil {
				errs[i] = fmt.Sprintf("child for harness %s failed: %v", h.Name, err)
				return
			}
			lines := strings.Split(strings.TrimSpace(string(out)), "\n")
			if err := json.Unmarshal([]byte(lines[len(lines)-1]), &results[i]); err != nil {
				errs[i] = fmt.Sprintf("child for harness %s: bad output: %v", h.Name, err)
			}
		}(i, h)
	}
	wg.Wait()
	for i, h := range hs {
		if errs[i] != "" {
			rep.Broken = errs[i]
			continue
		}
		r := results[i]
		if r.Broken != "" {
			rep.Broken = r.Broken
		}
		if r.Violation != nil {
			v := r.Violation
			v.Confirm = func() (bool, string) { return ReplayConcurrent(v) }
			rep.Violation(v)
		}
		rep.Add("schedules", int64(r.Schedules))
		rep.Add("transitions", int64(r.Schedules))
		rep.Add("states", int64(len(r.Outcomes)))
		rep.Add("traces_validated_against_impl", int64(r.Schedules))
		rep.Add("concurrent_distinct_outcomes", int64(len(r.Outcomes)))
		rep.Sample(map[string]any{"harness": h.Name, "threads": h.Threads, "prefix": h.Prefix, "schedules_within_bound": r.Schedules, "distinct_outcomes": r.Outcomes})
	}
}

func runHarnesses(rep *explore.Report, tier string, only string, bound int) {
	runtime.LockOSThread()
	defer runtime.UnlockOSThread()
	rep.Set("preemption_bound", int64(bound))
	for _, h := range Harnesses(tier) {
		if only != "" && h.Name != only {
			continue
		}
		h := h
		outcomes := map[string]int{}
		hb := bound
		if len(h.Threads) >= 4 && hb > 2 {
			hb = 2 // four threads with statement-level points: 3 preemptions would take hours; 2 are completed
			rep.Set("preemption_bound_four_thread_harnesses", int64(hb))
		}
		execs, _ := explore.Deviations(hb, 0, func(ch *vrt.Chooser) {
			out, sig, msg := h.runOnce(ch)
			outcomes[out]++
			if sig != "" {
				cfg, _ := json.Marshal(h)
				v := &explore.Violation{Property: "C18", Engine: "seats-conc", Signature: "concurrent:" + sig, Message: fmt.Sprintf("harness %s: %s", h.Name, msg),
					Config: cfg, Choices: ch.Choices(), History: []string{h.Name}, Observed: out}
				v.Confirm = func() (bool, string) { return ReplayConcurrent(v) }
				rep.Violation(v)
			}
		})
		// replay determinism: the default schedule twice must give identical observations
		o1, _, _ := h.runOnce(vrt.NewChooser(nil))
		o2, _, _ := h.runOnce(vrt.NewChooser(nil))
		if o1 != o2 {
			rep.Broken = "schedule replay is not deterministic for harness " + h.Name
		}
		var outs []string
		for o := range outcomes {
			outs = append(outs, o)
		}
		sort.Strings(outs)
		rep.Add("schedules", int64(execs))
		rep.Add("transitions", int64(execs))
		rep.Add("states", int64(len(outcomes)))
		rep.Add("traces_validated_against_impl", int64(execs))
		rep.Add("concurrent_distinct_outcomes", int64(len(outcomes)))
		rep.Sample(map[string]any{"harness": h.Name, "threads": h.Threads, "prefix": h.Prefix, "schedules_within_bound": execs, "distinct_outcomes": outs})
	}
}

// ReplayConcurrent re-runs one recorded schedule.
func ReplayConcurrent(v *explore.Violation) (bool, string) {
	var h Harness
	if err := json.Unmarshal(v.Config, &h); err != nil {
		return false, err.Error()
	}
	runtime.LockOSThread()
	defer runtime.UnlockOSThread()
	ch := vrt.NewChooser(v.Choices)
	_, sig, msg := h.runOnce(ch)
	if ch.Err != "" {
		return false, "schedule does not fit this build: " + ch.Err
	}
	if "concurrent:"+sig == v.Signature {
		return true, msg
	}
	return false, "schedule runs clean (" + sig + ")"
}

func jsonUnmarshal(b []byte, v any) error { return json.Unmarshal(b, v) }
