package seats

import (
	"errors"
	"fmt"
	"runtime"
	"strconv"
	"strings"
	"sync/atomic"

	sm "github.com/weedbox/pokerface/seat_manager"
	"github.com/weedbox/pokerface/verifshim/vrt"

	"verif/internal/explore"
)

// Check selects the oracle set.
type Check struct {
	Property string // C08 | C17 | C18
	Rep      *explore.Report
	N        int
	DevBound int // deviations (map order + rand) per Join(-1); <0 = all
	MaxState int
	Beside   bool  // a second seat manager lives in the process (see otherTable)
	Workers  int   // 0 = all cores
	Only     []int // sparse exploration of a large table: seat operations only on these seats (plus Next)

	scenarios int64
	nextOK    int64
	nextErr   int64
	joinAny   int64
}

type sink func(sig, msg, expected, observed string)

// label of an executed op: choices are appended so that a history replays exactly.
func (c *Check) alphabet() []Op {
	if c.Only == nil {
		return Alphabet(c.N)
	}
	var ops []Op
	for _, kind := range []string{"Join", "Seat", "Reserve", "Leave"} {
		for _, k := range c.Only {
			ops = append(ops, Op{kind, k})
		}
	}
	return append(ops, Op{Kind: "Next"})
}

func stepLabel(op Op, choices []int) string {
	l := op.Label()
	nz := false
	for _, c := range choices {
		if c != 0 {
			nz = true
		}
	}
	if nz {
		parts := make([]string, len(choices))
		for i, c := range choices {
			parts[i] = strconv.Itoa(c)
		}
		l += "@" + strings.Join(parts, ".")
	}
	return l
}

func parseStep(l string) (Op, []int, error) {
	var choices []int
	if i := strings.Index(l, "@"); i >= 0 {
		for _, f := range strings.Split(l[i+1:], ".") {
			c, err := strconv.Atoi(f)
			if err != nil {
				return Op{}, nil, err
			}
			choices = append(choices, c)
		}
		l = l[:i]
	}
	op, err := ParseOp(l)
	return op, choices, err
}

// exec runs op on m with the given environment answers; the calling goroutine must be locked to its thread.
func exec(m *sm.SeatManager, op Op, ch *vrt.Chooser) Outcome {
	var out Outcome
	explore.WithChooser(ch, func() { out = Apply(m, op) })
	return out
}

func (c *Check) updateHeld(pre *St, op Op, out Outcome, post *St) {
	if c.Property != "C18" {
		return // the monitor bits only serve C18; leaving them zero keeps the other searches smaller
	}
	copy(post.Held, pre.Held)
	if out.Panic != "" || out.Err != nil {
		return
	}
	switch op.Kind {
	case "Join":
		if out.Seat >= 0 && out.Seat < post.N {
			post.Held[out.Seat] = true
		}
	case "Seat", "Leave":
		if op.K >= 0 && op.K < post.N {
			post.Held[op.K] = false
		}
	}
}

func sameSeats(a, b *St, except int) bool {
	for i := 0; i < a.N; i++ {
		if i == except {
			continue
		}
		if a.Occ[i] != b.Occ[i] || a.Act[i] != b.Act[i] || a.Res[i] != b.Res[i] {
			return false
		}
	}
	return true
}

func sameAll(a, b *St) bool {
	return sameSeats(a, b, -1) && a.D == b.D && a.SB == b.SB && a.BB == b.BB
}

// oracle evaluates one executed step. m is the object after the step (for queries).
func (c *Check) oracle(pre *St, op Op, out Outcome, post *St, m *sm.SeatManager, bad sink) {
	n := pre.N
	switch c.Property {
	case "C18":
		if out.Panic != "" {
			bad("panic:"+op.Kind, fmt.Sprintf("%s panics in state [%s]", op.Label(), pre), "no panic", firstLine(out.Panic))
			return
		}
		occDelta := post.occupiedCount() - pre.occupiedCount()
		wantDelta := 0
		switch op.Kind {
		case "Join":
			if out.Err == nil {
				wantDelta = 1
			}
			inRange := op.K >= 0 && op.K < n
			switch {
			case op.K < -1 || op.K >= n || (inRange && pre.Occ[op.K]):
				if out.Err == nil {
					bad("join-refusal:accepted", fmt.Sprintf("%s on an occupied or out-of-range seat was accepted in [%s]", op.Label(), pre), "refused", "seat "+strconv.Itoa(out.Seat))
				} else if !sameAll(pre, post) {
					bad("join-refusal:changed", fmt.Sprintf("refused %s changed the seats", op.Label()), pre.String(), post.String())
				}
			case op.K == -1:
				var avail []int
				for i := 0; i < n; i++ {
					if !pre.Occ[i] && !pre.Res[i] {
						avail = append(avail, i)
					}
				}
				if len(avail) == 0 {
					if out.Err == nil {
						bad("join-any:seated-without-free-seat", "join on any seat succeeded although no empty non-reserved seat exists", "no available seat", fmt.Sprint(out.Seat))
					} else if !sameAll(pre, post) {
						bad("join-any:refusal-changed", "refused join changed the seats", pre.String(), post.String())
					}
					break
				}
				if out.Err != nil {
					bad("join-any:refused-with-free-seat", fmt.Sprintf("join on any seat reports %v although seats %v are empty and not reserved in [%s]", out.Err, avail, pre), "a seat", out.Err.Error())
					break
				}
				ok := false
				for _, a := range avail {
					if a == out.Seat {
						ok = true
					}
				}
				if !ok {
					bad("join-any:bad-seat", fmt.Sprintf("join on any seat put the player on seat %d, which is not an empty non-reserved seat in [%s]", out.Seat, pre), fmt.Sprint(avail), fmt.Sprint(out.Seat))
					break
				}
				if !post.Occ[out.Seat] || !sameSeats(pre, post, out.Seat) {
					bad("join-any:effect", "join on any seat did not seat exactly the one player on the returned seat", "only seat "+strconv.Itoa(out.Seat)+" changes", post.String())
				}
			default: // in range, empty
				if out.Err == nil && (out.Seat != op.K || !post.Occ[op.K] || !sameSeats(pre, post, op.K)) {
					bad("join:effect", fmt.Sprintf("%s did not seat exactly the one player on that seat", op.Label()), "only seat "+strconv.Itoa(op.K)+" changes", post.String())
				}
			}
		case "Leave":
			if op.K >= 0 && op.K < n && pre.Occ[op.K] {
				if out.Err != nil {
					bad("leave:refused", fmt.Sprintf("%s of an occupied seat refused", op.Label()), "nil", out.Err.Error())
				} else {
					wantDelta = -1
					if post.Occ[op.K] || post.Res[op.K] || !sameSeats(pre, post, op.K) {
						bad("leave:effect", fmt.Sprintf("%s must free exactly that seat", op.Label()), "seat empty and available, others untouched", post.String())
					}
				}
			} else {
				if out.Err == nil {
					bad("leave:accepted", fmt.Sprintf("%s of an empty or unknown seat was accepted", op.Label()), "error", "nil")
				} else if !sameAll(pre, post) {
					bad("leave:refusal-changed", "refused leave changed the seats", pre.String(), post.String())
				}
			}
		}
		if occDelta != wantDelta {
			bad("player-count:"+op.Kind, fmt.Sprintf("after %s the number of seated players changed by %d", op.Label(), occDelta), strconv.Itoa(wantDelta), strconv.Itoa(occDelta))
		}
		if m != nil {
			func() {
				defer func() {
					if r := recover(); r != nil {
						bad("panic:GetPlayerCount", fmt.Sprintf("GetPlayerCount panics after %s in [%s]: %v", op.Label(), post, r), "no panic", fmt.Sprint(r))
					}
				}()
				if got := m.GetPlayerCount(); got != post.occupiedCount() {
					bad("player-count:query", "GetPlayerCount differs from the seats", strconv.Itoa(post.occupiedCount()), strconv.Itoa(got))
				}
			}()
		}
		for i := 0; i < n; i++ {
			if post.Held[i] && post.playable(i) {
				bad("held-player-in-play:"+op.Kind, fmt.Sprintf("after %s seat %d holds a player who only joined (never sat in) but is playable in [%s]", op.Label(), i, post), "held out of play", "playable")
			}
		}
	case "C17":
		if op.Kind != "Next" {
			return
		}
		canPlay := 0
		for i := 0; i < n; i++ {
			if pre.Occ[i] && !pre.Res[i] {
				canPlay++
			}
		}
		if canPlay < 2 {
			atomic.AddInt64(&c.nextErr, 1)
			switch {
			case out.Panic != "":
				bad("insufficient:panic", fmt.Sprintf("Next panics with fewer than two players able to play in [%s]", pre), "insufficient-players error", firstLine(out.Panic))
			case !errors.Is(out.Err, sm.ErrInsufficientNumberOfPlayers):
				bad("insufficient:not-refused", fmt.Sprintf("Next with fewer than two players able to play in [%s]", pre), sm.ErrInsufficientNumberOfPlayers.Error(), fmt.Sprint(out.Err))
			}
			return
		}
		if pre.D >= 0 && pre.playableCount() >= 2 {
			atomic.AddInt64(&c.nextOK, 1)
			want := pre.firstPlayableAfter(pre.D)
			switch {
			case out.Panic != "":
				bad("button:panic", fmt.Sprintf("Next panics with %d playable seats in [%s]", pre.playableCount(), pre), "button moves", firstLine(out.Panic))
			case out.Err != nil:
				bad("button:refused", fmt.Sprintf("Next refused with %d playable seats in [%s]", pre.playableCount(), pre), "nil", out.Err.Error())
			case post.D != want:
				sig := "button:skips"
				if post.D == pre.D {
					sig = "button:stays"
				}
				bad(sig, fmt.Sprintf("button moved from seat %d to seat %d in [%s]", pre.D, post.D, pre), "seat "+strconv.Itoa(want), "seat "+strconv.Itoa(post.D))
			}
			return
		}
		// in between: two or more players can play once the waiting ones are let in, so the move must not be refused
		switch {
		case out.Panic != "":
			bad("insufficient:panic", fmt.Sprintf("Next panics in [%s]", pre), "the move", firstLine(out.Panic))
		case out.Err != nil:
			bad("waiting-players-not-let-in", fmt.Sprintf("Next is refused (%v) although %d players sit in and could play once the waiting ones are let in, in [%s]", out.Err, canPlay, pre), "nil", out.Err.Error())
		}
	case "C08":
		if op.Kind != "Next" || out.Panic != "" || out.Err != nil {
			return
		}
		atomic.AddInt64(&c.nextOK, 1)
		c.positions(post, bad)
		c.queries(post, m, bad)
		c.lateJoiner(post, bad, "")
	}
}

// queries: what the table reads after a successful Next must agree with the seats themselves.
func (c *Check) queries(s *St, m *sm.SeatManager, bad sink) {
	if m == nil || s.D < 0 {
		return
	}
	defer func() {
		if r := recover(); r != nil {
			bad("query-panics", fmt.Sprintf("a seat query panics after a successful Next in [%s]: %v", s, r), "no panic", fmt.Sprint(r))
		}
	}()
	var want []int
	for i := 0; i < s.N; i++ {
		if s.playable(i) {
			want = append(want, i)
		}
	}
	var got []int
	for _, seat := range m.GetPlayableSeats() {
		got = append(got, seat.ID)
	}
	if fmt.Sprint(sortedInts(got)) != fmt.Sprint(want) {
		bad("playable-seats-query", fmt.Sprintf("GetPlayableSeats() after a successful Next in [%s]", s), fmt.Sprint(want), fmt.Sprint(sortedInts(got)))
	}
	if len(got) > 0 && got[0] != s.D {
		bad("playable-seats-query", "GetPlayableSeats() does not start at the dealer", fmt.Sprint(s.D), fmt.Sprint(got[0]))
	}
	if n := m.GetPlayableSeatCount(); n != len(want) {
		bad("playable-seats-query", "GetPlayableSeatCount() differs from the seats", fmt.Sprint(len(want)), fmt.Sprint(n))
	}
	all := m.GetSeats()
	if len(all) != s.N {
		bad("seats-query", "GetSeats() does not list every seat", fmt.Sprint(s.N), fmt.Sprint(len(all)))
	}
	for i, seat := range all {
		if seat == nil || seat.ID != i || (seat.Player != nil) != s.Occ[i] || seat.IsActive != s.Act[i] || seat.IsReserved != s.Res[i] {
			bad("seats-query", fmt.Sprintf("GetSeats()[%d] disagrees with GetSeat(%d)", i, i), "same seat", fmt.Sprint(seat))
			break
		}
	}
	act := 0
	for _, seat := range m.GetActiveSeats() {
		if seat == nil || !s.Act[seat.ID] {
			bad("seats-query", "GetActiveSeats() lists a seat that is not active", "active seats", fmt.Sprint(seat))
		}
		act++
	}
	wantAct := 0
	for i := 0; i < s.N; i++ {
		if s.Act[i] {
			wantAct++
		}
	}
	if act != wantAct {
		bad("seats-query", "GetActiveSeats() misses or adds seats", fmt.Sprint(wantAct), fmt.Sprint(act))
	}
}

func (c *Check) positions(s *St, bad sink) {
	for _, r := range []struct {
		name string
		seat int
	}{{"dealer", s.D}, {"small blind", s.SB}, {"big blind", s.BB}} {
		if r.seat < 0 || r.seat >= s.N || !s.playable(r.seat) {
			bad("position-not-playable:"+strings.ReplaceAll(r.name, " ", "-"), fmt.Sprintf("after a successful Next the %s is on seat %d, which is not an occupied, active, non-reserved seat in [%s]", r.name, r.seat, s), "playable seat", strconv.Itoa(r.seat))
			return
		}
	}
	pc := s.playableCount()
	if pc == 2 {
		if s.SB != s.D || s.BB == s.D {
			bad("heads-up-blinds", fmt.Sprintf("two playable seats: dealer %d sb %d bb %d in [%s]", s.D, s.SB, s.BB, s), "sb = dealer, bb = the other player", fmt.Sprintf("sb %d bb %d", s.SB, s.BB))
		}
		return
	}
	wantSB := s.firstPlayableAfter(s.D)
	wantBB := s.firstPlayableAfter(wantSB)
	if s.SB != wantSB || s.BB != wantBB {
		bad("blinds-order", fmt.Sprintf("%d playable seats: dealer %d sb %d bb %d in [%s]", pc, s.D, s.SB, s.BB, s), fmt.Sprintf("sb %d bb %d", wantSB, wantBB), fmt.Sprintf("sb %d bb %d", s.SB, s.BB))
	}
}

// visitorPrefixes: every sequence of at most three operations on seat k alone
// (earlier visitors who came and went) after which the seat is empty again.
func visitorPrefixes(k int) [][]Op {
	kinds := []string{"Join", "Seat", "Reserve", "Leave"}
	out := [][]Op{{}}
	var rec func(cur []Op)
	rec = func(cur []Op) {
		if len(cur) == 3 {
			return
		}
		for _, kd := range kinds {
			nx := append(append([]Op{}, cur...), Op{kd, k})
			out = append(out, nx)
			rec(nx)
		}
	}
	rec(nil)
	return out
}

// lateJoiner: from the state right after a successful Next, and after any
// visitors to that seat alone have come and gone, a newcomer takes an empty
// seat strictly between dealer and big blind and sits in; with nobody else
// moving he must be dealt in from exactly the first hand after the button
// has moved past his seat.
func (c *Check) lateJoiner(p *St, bad sink, tag string) {
	n := p.N
	for k := 0; k < n; k++ {
		if p.Occ[k] || !between(p.D, k, p.BB, n) || p.D == p.BB {
			continue
		}
		for _, prefix := range visitorPrefixes(k) {
			m := Build(p)
			okPrefix := true
			for _, op := range prefix {
				if o := Apply(m, op); o.Panic != "" {
					okPrefix = false
					break
				}
			}
			if !okPrefix {
				continue
			}
			if s := m.GetSeat(k); s == nil || s.Player != nil {
				continue // a visitor is still there: not an empty seat
			}
			// the newcomer joins now and sits in after `delay` further hands (0 = at once)
			for delay := 0; delay <= n; delay++ {
				if delay > 0 {
					// rebuild the situation: Build + prefix again
					m = Build(p)
					for _, op := range prefix {
						Apply(m, op)
					}
				}
				atomic.AddInt64(&c.scenarios, 1)
				if o := Apply(m, Op{"Join", k}); o.Err != nil || o.Panic != "" {
					break
				}
				satIn := false
				if delay == 0 {
					if o := Apply(m, Op{"Seat", k}); o.Err != nil || o.Panic != "" {
						break
					}
					satIn = true
				}
				passed := false
				failed := false
				for hand := 1; hand <= n+1; hand++ {
					prevD := seatID(m.Dealer())
					o := Apply(m, Op{Kind: "Next"})
					if o.Panic != "" || o.Err != nil {
						break
					}
					s := Snap(m, n)
					if !passed && (between(prevD, k, s.D, n) || s.D == k) {
						passed = true
					}
					want := passed && satIn
					if s.playable(k) != want {
						sig := "late-joiner:dealt-in-early" + tag
						if want {
							sig = "late-joiner:kept-out" + tag
						}
						var pl []string
						for _, op := range prefix {
							pl = append(pl, op.Label())
						}
						bad(sig, fmt.Sprintf("after earlier visitors %v came and went, a newcomer takes seat %d (between dealer %d and big blind %d of [%s]) and sits in after %d more hands: hand %d after joining, dealer %d -> %d, button has passed the seat: %v, sat in: %v, dealt in: %v", pl, k, p.D, p.BB, p, delay, hand, prevD, s.D, passed, satIn, s.playable(k)), fmt.Sprintf("dealt in = %v", want), fmt.Sprintf("dealt in = %v", s.playable(k)))
						failed = true
						break
					}
					if !satIn && hand == delay {
						if o := Apply(m, Op{"Seat", k}); o.Err != nil || o.Panic != "" {
							break
						}
						satIn = true
					}
				}
				if failed {
					return
				}
			}
		}
	}
}

func firstLine(s string) string {
	if i := strings.IndexByte(s, '\n'); i >= 0 {
		return s[:i]
	}
	return s
}

// rnode is a state of the replay-mode search: the history that reaches it on ONE uninterrupted
// seat manager, its snapshot, and the identity facts a snapshot cannot show (whether the dealer /
// blind pointers still are the live seat records).
type rnode struct {
	hist  []string
	st    *St
	ident string
}

func identity(m *sm.SeatManager) string {
	var b strings.Builder
	for _, p := range []*sm.Seat{m.Dealer(), m.SmallBlind(), m.BigBlind()} {
		switch {
		case p == nil:
			b.WriteByte('-')
		case m.GetSeat(p.ID) == p:
			b.WriteByte('=')
		default:
			b.WriteByte('x') // an orphaned record: same id, no longer the seat the manager works on
		}
	}
	return b.String()
}

func replayHist(n int, hist []string, beside bool) *sm.SeatManager {
	m := sm.NewSeatManager(n)
	if beside {
		otherTable()
	}
	for _, l := range hist {
		op, choices, err := parseStep(l)
		if err != nil {
			panic(err)
		}
		exec(m, op, vrt.NewChooser(choices))
		if beside {
			otherTable()
		}
	}
	return m
}

// RunReplay explores all operation sequences WITHOUT rebuilding states: every successor is
// obtained by replaying the whole history on a fresh seat manager (pointer identities, replaced
// records and any other in-memory-only effect are kept). Used for the small tables.
func (c *Check) RunReplay() {
	b := &explore.BFS[*rnode]{Workers: c.Workers, MaxStates: c.MaxState, KeyOf: func(r *rnode) explore.Key {
		k := r.st.key()
		return explore.HashKey(append(k[:], r.ident...))
	}}
	ops := c.alphabet()
	m0 := sm.NewSeatManager(c.N)
	init := &rnode{st: Snap(m0, c.N), ident: identity(m0)}
	var execs int64
	report := func(hist []string, label, sig, msg, exp, obs string) {
		h := append(append([]string{}, hist...), label)
		if label == "" {
			h = h[:len(h)-1]
		}
		if c.Rep.Skip(sig, len(h)) {
			return
		}
		v := &explore.Violation{Property: c.Property, Engine: "seats", Signature: sig, Message: msg, Config: c.cfg(), History: h, Expected: exp, Observed: obs}
		v.Confirm = func() (bool, string) { return Replay(v) }
		v.GoTestFn = func() string { return goTest(c.N, h) }
		c.Rep.Violation(v)
	}
	b.Run([]*rnode{init}, func(nd explore.Node[*rnode], emit func(string, *rnode) (int32, bool)) {
		pre := nd.State
		if c.Property == "C18" {
			c.availability(pre.st, func(sig, msg, exp, obs string) { report(pre.hist, "", sig, msg, exp, obs) })
		}
		for _, op := range ops {
			one := func(ch *vrt.Chooser) {
				m := replayHist(c.N, pre.hist, c.Beside)
				if ch == nil {
					ch = vrt.NewChooser(nil)
				}
				out := exec(m, op, ch)
				if c.Beside {
					otherTable()
				}
				label := stepLabel(op, ch.Choices())
				post := Snap(m, c.N)
				c.updateHeld(pre.st, op, out, post)
				violated := false
				c.oracle(pre.st, op, out, post, m, func(sig, msg, exp, obs string) {
					violated = true
					report(pre.hist, label, sig, msg, exp, obs)
				})
				if out.Panic != "" || violated {
					return
				}
				emit(label, &rnode{hist: append(append([]string{}, pre.hist...), label), st: post, ident: identity(m)})
			}
			e := 1
			if op.Kind == "Join" && op.K == -1 {
				atomic.AddInt64(&c.joinAny, 1)
				e, _ = explore.Deviations(c.DevBound, 0, one)
			} else {
				one(nil)
			}
			atomic.AddInt64(&execs, int64(e))
		}
	})
	c.Rep.Add("states", b.States)
	c.Rep.Add("transitions", b.Transitions)
	c.Rep.Add("traces_validated_against_impl", execs)
	c.Rep.Add("executions", execs)
	c.Rep.Add("configurations", 1)
	c.Rep.Max("max_depth", int64(b.MaxDepth))
	c.Rep.Add("next_moves_checked", c.nextOK)
	c.Rep.Add("next_refusals_checked", c.nextErr)
	c.Rep.Add("late_joiner_scenarios", c.scenarios)
	c.Rep.Add("join_any_states", c.joinAny)
	c.Rep.Set(fmt.Sprintf("states_n%d_replay_mode", c.N), b.States)
	if b.Capped != "" {
		c.Rep.Cap(fmt.Sprintf("%s at %d seats in replay mode (states=%d, completed depth=%d)", b.Capped, c.N, b.States, b.MaxDepth))
	}
}

// Run explores all operation sequences on a table of c.N seats.
func (c *Check) Run() {
	b := &explore.BFS[*St]{MaxStates: c.MaxState, KeyOf: func(s *St) explore.Key { return s.key() }}
	ops := c.alphabet()
	init := Initial(c.N)
	var execs int64
	b.Run([]*St{init}, func(nd explore.Node[*St], emit func(string, *St) (int32, bool)) {
		pre := nd.State
		if c.Property == "C18" {
			c.availability(pre, func(sig, msg, exp, obs string) { c.report(b, nd.ID, "", sig, msg, exp, obs) })
		}

		for _, op := range ops {
			bound := 0
			if op.Kind == "Join" && op.K == -1 {
				bound = c.DevBound
				atomic.AddInt64(&c.joinAny, 1)
			}
			one := func(ch *vrt.Chooser) {
				m := Build(pre)
				var out Outcome
				var label string
				if ch != nil {
					out = exec(m, op, ch)
					label = stepLabel(op, ch.Choices())
				} else {
					out = Apply(m, op) // consults no environment choice
					label = op.Label()
				}
				post := Snap(m, c.N)
				c.updateHeld(pre, op, out, post)
				violated := false
				c.oracle(pre, op, out, post, m, func(sig, msg, exp, obs string) {
					violated = true
					c.report(b, nd.ID, label, sig, msg, exp, obs)
				})
				if out.Panic != "" || violated {
					return // a crashed / violating object is a counterexample, not a starting point
				}
				emit(label, post)
			}
			e := 1
			if op.Kind == "Join" && op.K == -1 {
				e, _ = explore.Deviations(bound, 0, one)
			} else {
				one(nil)
			}
			atomic.AddInt64(&execs, int64(e))
		}
	})
	c.Rep.Add("states", b.States)
	c.Rep.Add("transitions", b.Transitions)
	c.Rep.Add("traces_validated_against_impl", execs)
	c.Rep.Add("executions", execs)
	c.Rep.Add("configurations", 1)
	c.Rep.Max("max_depth", int64(b.MaxDepth))
	c.Rep.Add("next_moves_checked", c.nextOK)
	c.Rep.Add("next_refusals_checked", c.nextErr)
	c.Rep.Add("late_joiner_scenarios", c.scenarios)
	c.Rep.Add("join_any_states", c.joinAny)
	if c.Only == nil {
		c.Rep.Set(fmt.Sprintf("states_n%d", c.N), b.States)
	} else {
		c.Rep.Add(fmt.Sprintf("states_n%d_sparse", c.N), b.States)
	}
	if b.Capped != "" {
		c.Rep.Cap(fmt.Sprintf("%s at %d seats (states=%d, completed depth=%d)", b.Capped, c.N, b.States, b.MaxDepth))
	}
}

// availability compares GetAvailableSeats with the reference sets.
func (c *Check) availability(s *St, bad sink) {
	m := Build(s)
	var a, alt []int
	nAvail := -1
	func() {
		defer func() {
			if r := recover(); r != nil {
				bad("panic:GetAvailableSeats", "GetAvailableSeats / GetAvailableSeatCount panics", "no panic", fmt.Sprint(r))
			}
		}()
		a, alt = m.GetAvailableSeats()
		nAvail = m.GetAvailableSeatCount()
	}()
	if nAvail < 0 {
		return
	}
	var wa, walt []int
	for i := 0; i < s.N; i++ {
		if s.Occ[i] || s.Res[i] {
			continue
		}
		if s.Act[i] {
			wa = append(wa, i)
		} else {
			walt = append(walt, i)
		}
	}
	if n := nAvail; n != len(wa) {
		bad("available-seats", fmt.Sprintf("GetAvailableSeatCount() of [%s]", s), fmt.Sprint(len(wa)), fmt.Sprint(n))
	}
	if fmt.Sprint(sortedInts(a)) != fmt.Sprint(wa) || fmt.Sprint(sortedInts(alt)) != fmt.Sprint(walt) {
		bad("available-seats", fmt.Sprintf("available seats of [%s]", s), fmt.Sprint(wa, walt), fmt.Sprint(sortedInts(a), sortedInts(alt)))
	}
}

func (c *Check) report(b *explore.BFS[*St], id int32, label, sig, msg, exp, obs string) {
	hl := 0
	h := b.Path(id)
	if label != "" {
		h = append(h, label)
	}
	hl = len(h)
	if c.Rep.Skip(sig, hl) {
		return
	}
	v := &explore.Violation{Property: c.Property, Engine: "seats", Signature: sig, Message: msg, Config: cfgOf(c.N), History: h, Expected: exp, Observed: obs}
	v.Confirm = func() (bool, string) { return Replay(v) }
	v.GoTestFn = func() string { return goTest(c.N, h) }
	c.Rep.Violation(v)
}

// Replay re-executes a recorded history on ONE fresh seat manager (no state
// reconstruction) and re-evaluates the property's oracle on every step.
func Replay(v *explore.Violation) (bool, string) {
	var cfg cfgJSON
	if err := jsonUnmarshal(v.Config, &cfg); err != nil {
		return false, err.Error()
	}
	runtime.LockOSThread()
	defer runtime.UnlockOSThread()
	c := &Check{Property: v.Property, Rep: explore.NewReport(v.Property, "replay"), N: cfg.N, Beside: cfg.Beside}
	m := sm.NewSeatManager(cfg.N)
	if cfg.Beside {
		otherTable()
	}
	pre := Snap(m, cfg.N)
	found := ""
	for _, l := range v.History {
		op, choices, err := parseStep(l)
		if err != nil {
			return false, err.Error()
		}
		if c.Property == "C18" {
			c.availability(pre, func(sig, msg, exp, obs string) {
				if sig == v.Signature {
					found = msg
				}
			})
		}
		out := exec(m, op, vrt.NewChooser(choices))
		if cfg.Beside {
			otherTable()
		}
		post := Snap(m, cfg.N)
		c.updateHeld(pre, op, out, post)
		c.oracle(pre, op, out, post, m, func(sig, msg, exp, obs string) {
			if sig == v.Signature {
				found = msg
			}
		})
		if out.Panic != "" {
			break
		}
		pre = post
	}
	if found != "" {
		return true, found
	}
	if len(v.History) == 0 || c.Property == "C18" {
		c.availability(pre, func(sig, msg, exp, obs string) {
			if sig == v.Signature {
				found = msg
			}
		})
		if found != "" {
			return true, found
		}
	}
	return false, "oracle silent along the recorded history"
}

func goTest(n int, hist []string) string {
	var b strings.Builder
	fmt.Fprintf(&b, "func TestReplay(t *testing.T) {\n\tsm := seat_manager.NewSeatManager(%d)\n", n)
	for _, l := range hist {
		op, _, err := parseStep(l)
		if err != nil {
			continue
		}
		switch op.Kind {
		case "Join":
			fmt.Fprintf(&b, "\tt.Log(sm.Join(%d, \"p\"))\n", op.K)
		case "Next":
			fmt.Fprintf(&b, "\tt.Log(sm.Next())\n")
		default:
			fmt.Fprintf(&b, "\tt.Log(sm.%s(%d))\n", op.Kind, op.K)
		}
	}
	b.WriteString("}\n")
	return b.String()
}
