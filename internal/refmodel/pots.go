package refmodel

import "sort"

// Layer is one side-pot layer: the chips every player put in between Lo and Hi.
type Layer struct {
	Lo, Hi   int64
	Total    int64
	Eligible []int // non-folded players who paid the whole layer (contribution >= Hi), ascending
}

// Layers splits contributions into layers by distinct positive totals.
func Layers(contrib []int64, fold []bool) []Layer {
	set := map[int64]bool{}
	for _, c := range contrib {
		if c > 0 {
			set[c] = true
		}
	}
	var lv []int64
	for c := range set {
		lv = append(lv, c)
	}
	sort.Slice(lv, func(i, j int) bool { return lv[i] < lv[j] })
	var out []Layer
	var lo int64
	for _, hi := range lv {
		l := Layer{Lo: lo, Hi: hi}
		for i, c := range contrib {
			x := c - lo
			if x < 0 {
				x = 0
			}
			if x > hi-lo {
				x = hi - lo
			}
			l.Total += x
			if !fold[i] && c >= hi {
				l.Eligible = append(l.Eligible, i)
			}
		}
		out = append(out, l)
		lo = hi
	}
	return out
}

func sameInts(a, b []int) bool {
	if len(a) != len(b) {
		return false
	}
	for i := range a {
		if a[i] != b[i] {
			return false
		}
	}
	return true
}

// Pots merges maximal runs of adjacent layers with the same eligible set.
func Pots(contrib []int64, fold []bool) []Layer {
	var out []Layer
	for _, l := range Layers(contrib, fold) {
		if n := len(out); n > 0 && sameInts(out[n-1].Eligible, l.Eligible) {
			out[n-1].Hi = l.Hi
			out[n-1].Total += l.Total
			continue
		}
		out = append(out, l)
	}
	return out
}

// Winners returns the best-ranked eligible players of a pot.
func Winners(p Layer, strength []int) []int {
	best := -1 << 62
	for _, i := range p.Eligible {
		if strength[i] > best {
			best = strength[i]
		}
	}
	var w []int
	for _, i := range p.Eligible {
		if strength[i] == best {
			w = append(w, i)
		}
	}
	return w
}

// SettleAcceptable reports whether the observed per-player changes can be
// obtained by giving every pot to its winners in shares that differ by at
// most one chip (every way of placing the odd chips is acceptable).
// Pots without an eligible player (possible only when the top contribution
// is held by folded players alone) make the vector "unconstrained": ok=true
// is returned with constrained=false.
func SettleAcceptable(contrib []int64, fold []bool, strength []int, changed []int64) (ok, constrained bool) {
	pots := Pots(contrib, fold)
	n := len(contrib)
	type option []int64
	cur := [][]int64{make([]int64, n)}
	for _, p := range pots {
		w := Winners(p, strength)
		if len(w) == 0 {
			return true, false
		}
		k := int64(len(w))
		base, rem := p.Total/k, int(p.Total%k)
		// every subset of rem winners gets one extra chip
		var subsets [][]int
		var rec func(start int, pick []int)
		rec = func(start int, pick []int) {
			if len(pick) == rem {
				subsets = append(subsets, append([]int{}, pick...))
				return
			}
			for i := start; i < len(w); i++ {
				rec(i+1, append(pick, w[i]))
			}
		}
		rec(0, nil)
		var next [][]int64
		seen := map[string]bool{}
		for _, c := range cur {
			for _, sub := range subsets {
				v := append([]int64{}, c...)
				for _, i := range w {
					v[i] += base
				}
				for _, i := range sub {
					v[i]++
				}
				key := keyOf(v)
				if !seen[key] {
					seen[key] = true
					next = append(next, v)
				}
			}
		}
		cur = next
	}
	for _, v := range cur {
		match := true
		for i := range v {
			if v[i]-contrib[i] != changed[i] {
				match = false
				break
			}
		}
		if match {
			return true, true
		}
	}
	return false, true
}

func keyOf(v []int64) string {
	b := make([]byte, 0, len(v)*3)
	for _, x := range v {
		b = append(b, byte(x), byte(x>>8), ',')
	}
	return string(b)
}
