// Package refmodel holds the deliberately naive reference models the oracles
// compare the implementation against. Nothing here imports the code under test.
package refmodel

import "sort"

// Card is a rank 2..14 and a suit letter.
type Card struct {
	Rank int
	Suit byte
}

var rankOf = map[byte]int{'2': 2, '3': 3, '4': 4, '5': 5, '6': 6, '7': 7, '8': 8, '9': 9, 'T': 10, 'J': 11, 'Q': 12, 'K': 13, 'A': 14}

func ParseCard(s string) Card { return Card{Rank: rankOf[s[1]], Suit: s[0]} }

func ParseCards(ss []string) []Card {
	out := make([]Card, len(ss))
	for i, s := range ss {
		out[i] = ParseCard(s)
	}
	return out
}

// Categories in the textbook (standard) order.
const (
	HighCard = iota
	Pair
	TwoPair
	Trips
	Straight
	Flush
	FullHouse
	Quads
	StraightFlush
)

var CategoryName = []string{"HighCard", "Pair", "TwoPair", "ThreeOfAKind", "Straight", "Flush", "FullHouse", "FourOfAKind", "StraightFlush"}

// Class is the poker equivalence class of a five-card hand: two hands tie
// iff their classes are equal; Tie is compared lexicographically.
type Class struct {
	Cat int
	Tie [5]int
}

// Eval5 classifies five cards by the rules of poker. Ace is low only in
// 5-4-3-2-A.
func Eval5(h []Card) Class {
	cnt := map[int]int{}
	flush := true
	for _, c := range h {
		cnt[c.Rank]++
		if c.Suit != h[0].Suit {
			flush = false
		}
	}
	type rc struct{ r, c int }
	var g []rc
	for r, c := range cnt {
		g = append(g, rc{r, c})
	}
	sort.Slice(g, func(i, j int) bool {
		if g[i].c != g[j].c {
			return g[i].c > g[j].c
		}
		return g[i].r > g[j].r
	})
	var cl Class
	for i, x := range g {
		cl.Tie[i] = x.r
	}
	straight := false
	if len(g) == 5 {
		hi, lo := g[0].r, g[4].r
		if hi-lo == 4 {
			straight = true
			cl.Tie = [5]int{hi}
		} else if hi == 14 && g[1].r == 5 && lo == 2 {
			straight = true
			cl.Tie = [5]int{5}
		}
	}
	switch {
	case straight && flush:
		cl.Cat = StraightFlush
	case g[0].c == 4:
		cl.Cat = Quads
	case g[0].c == 3 && g[1].c == 2:
		cl.Cat = FullHouse
	case flush:
		cl.Cat = Flush
	case straight:
		cl.Cat = Straight
	case g[0].c == 3:
		cl.Cat = Trips
	case g[0].c == 2 && g[1].c == 2:
		cl.Cat = TwoPair
	case g[0].c == 2:
		cl.Cat = Pair
	default:
		cl.Cat = HighCard
	}
	return cl
}

// CatOrder gives the position of each category in the variant's ranking
// (short deck: flush above full house).
func CatOrder(shortDeck bool) [9]int {
	o := [9]int{0, 1, 2, 3, 4, 5, 6, 7, 8}
	if shortDeck {
		o[Flush], o[FullHouse] = 6, 5
	}
	return o
}

// ClassKey maps a class to an integer that is strictly monotone in poker
// strength under the given variant.
func ClassKey(c Class, shortDeck bool) uint64 {
	k := uint64(CatOrder(shortDeck)[c.Cat])
	for _, t := range c.Tie {
		k = k*15 + uint64(t)
	}
	return k
}

// ShortDeckLowStraight reports the A-9-8-7-6 rank pattern, whose class the
// property leaves open.
func ShortDeckLowStraight(h []Card) bool {
	want := map[int]bool{14: true, 9: true, 8: true, 7: true, 6: true}
	seen := map[int]bool{}
	for _, c := range h {
		if !want[c.Rank] || seen[c.Rank] {
			return false
		}
		seen[c.Rank] = true
	}
	return len(seen) == 5
}
