package refmodel

// Best returns the best class key over all admissible five-card selections
// from hole and board (nested loops, no cleverness): any five of hole+board
// when required == 0, otherwise exactly `required` hole cards and 5-required
// board cards. ambiguous is set when some admissible selection is the
// short-deck A-9-8-7-6 pattern under the short-deck variant (class left open).
func Best(hole, board []Card, required int, shortDeck bool) (best uint64, n int, ambiguous bool) {
	consider := func(sel []Card) {
		n++
		if shortDeck && ShortDeckLowStraight(sel) {
			ambiguous = true
			return
		}
		k := ClassKey(Eval5(sel), shortDeck)
		if k > best {
			best = k
		}
	}
	if required == 0 {
		all := append(append([]Card{}, hole...), board...)
		subsets(all, 5, consider)
		return
	}
	subsets(hole, required, func(h []Card) {
		hc := append([]Card{}, h...)
		subsets(board, 5-required, func(b []Card) {
			consider(append(append([]Card{}, hc...), b...))
		})
	})
	return
}

// subsets calls f on every k-element subset of s (in order).
func subsets(s []Card, k int, f func([]Card)) {
	if k > len(s) {
		return
	}
	idx := make([]int, k)
	for i := range idx {
		idx[i] = i
	}
	buf := make([]Card, k)
	for {
		for i, x := range idx {
			buf[i] = s[x]
		}
		f(buf)
		i := k - 1
		for i >= 0 && idx[i] == len(s)-k+i {
			i--
		}
		if i < 0 {
			return
		}
		idx[i]++
		for j := i + 1; j < k; j++ {
			idx[j] = idx[j-1] + 1
		}
	}
}
